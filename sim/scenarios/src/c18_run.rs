//! Shard loop, replay and evidence bookkeeping for the C18 `hist` engine.

use crate::c18::*;
use crate::cli::*;
use serde_json::{json, Value};
use simkit::rng::{mix, name_hash};
use simkit::fnv1a;
use std::time::Instant;

fn nontrivial(p: &Probes) -> bool {
    p.get("err_exit_on_open_ring") > 0 || p.get("open_ring_to_constructor") > 0
}

/// Watchdog: geo algorithms (and their dependencies) are called on arbitrary, mostly invalid
/// rings here; one that does not terminate must not hang the check.  The run index in flight is
/// written to the breadcrumb file and the process aborts (the driver records and tolerates it).
static IN_FLIGHT: std::sync::atomic::AtomicU64 = std::sync::atomic::AtomicU64::new(u64::MAX);
static TICK: std::sync::atomic::AtomicU64 = std::sync::atomic::AtomicU64::new(0);

fn start_watchdog(a: &Args) {
    let path = format!("{}/{}-shard{}.current", a.out_dir, a.prop, a.shard_i);
    let seed = a.seed;
    std::thread::spawn(move || {
        let mut last = (u64::MAX, 0u64, 0u32);
        loop {
            std::thread::sleep(std::time::Duration::from_secs(1));
            let cur = (IN_FLIGHT.load(std::sync::atomic::Ordering::Relaxed), TICK.load(std::sync::atomic::Ordering::Relaxed));
            if cur.0 != u64::MAX && (cur.0, cur.1) == (last.0, last.1) {
                last.2 += 1;
                if last.2 >= 30 {
                    let _ = std::fs::write(&path, format!("history of run {} (VERIF_SEED {}) did not finish within 30 s", cur.0, seed));
                    eprintln!("WATCHDOG: history of run {} did not finish within 30 s", cur.0);
                    std::process::abort();
                }
            } else {
                last = (cur.0, cur.1, 0);
            }
        }
    });
}

pub fn run(a: &Args) -> i32 {
    install_quiet_panic_hook();
    start_watchdog(a);
    let t0 = Instant::now();
    let mut total = Probes::default();
    let mut evaluations: u64 = 0;
    let mut steps: u64 = 0;
    let mut hashes: Vec<u64> = Vec::new();
    let mut samples: Vec<Value> = Vec::new();
    let mut violations: Vec<Value> = Vec::new();
    let mut panics: Vec<Value> = Vec::new();
    let mut n_panics: u64 = 0;
    let mut fault_enum_histories: u64 = 0;
    let mut fault_enum_runs: u64 = 0;
    let enumerate_every: u64 = a.extra.get("enumerate-every").and_then(|s| s.parse().ok()).unwrap_or(0);

    let mut judge = |h: &History, r: u64, origin: &str, total: &mut Probes, hashes: &mut Vec<u64>, samples: &mut Vec<Value>, violations: &mut Vec<Value>| {
        IN_FLIGHT.store(r, std::sync::atomic::Ordering::Relaxed);
        TICK.fetch_add(1, std::sync::atomic::Ordering::Relaxed);
        let res = std::panic::catch_unwind(|| run_history(h));
        let hj = serde_json::to_vec(h).unwrap();
        match res {
            Err(_) => {
                n_panics += 1;
                if panics.len() < 3 {
                    panics.push(json!({"run": r, "at": take_last_panic(), "history": h}));
                }
            }
            Ok(rr) => {
                steps += rr.steps as u64;
                total.merge(&rr.probes);
                if nontrivial(&rr.probes) {
                    hashes.push(fnv1a(&hj));
                    if samples.len() < 3 && rr.probes.get("err_exit_on_open_ring") > 0 {
                        samples.push(json!({"run": r, "origin": origin, "history": h}));
                    }
                }
                if let Some(v) = rr.violation {
                    if violations.len() < 4 {
                        let (mh, mv) = minimise(h, &v);
                        let rep = json!({
                            "property": "C18", "engine": "hist", "verif_seed": a.seed, "run": r, "tier": a.tier,
                            "origin": origin,
                            "history": mh, "violation": mv,
                            "minimised_from": {"ops": h.ops.len(), "violation": v},
                        });
                        let path = write_replay(a, &format!("C18-{}-{}.json", a.seed, r), &rep);
                        violations.push(json!({"replay": path, "class": mv.class, "op": mv.op, "detail": mv.detail, "ops": mh.ops.len()}));
                    } else {
                        violations.push(json!({"replay": Value::Null, "class": v.class, "op": v.op, "run": r}));
                    }
                }
            }
        }
    };

    let mut r = a.shard_i;
    while r < a.runs {
        let s_r = mix(&[a.seed, name_hash("C18"), r]);
        let h = gen_history(s_r);
        evaluations += 1;
        judge(&h, r, "seeded", &mut total, &mut hashes, &mut samples, &mut violations);
        if enumerate_every > 0 && (r / a.shard_n) % enumerate_every == 0 {
            fault_enum_histories += 1;
            for hv in fault_variants(&h) {
                evaluations += 1;
                fault_enum_runs += 1;
                judge(&hv, r, "fault-enumeration", &mut total, &mut hashes, &mut samples, &mut violations);
            }
        }
        r += a.shard_n;
    }
    hashes.sort_unstable();
    hashes.dedup();
    write_hashes(a, &hashes);
    let summary = json!({
        "property": "C18", "shard": a.shard_i, "evaluations": evaluations, "steps": steps,
        "probes": probes_json(&total.c), "nontrivial_distinct_in_shard": hashes.len(),
        "samples": samples, "violations": violations, "panics": n_panics, "panic_samples": panics,
        "fault_enum_histories": fault_enum_histories, "fault_enum_runs": fault_enum_runs,
        "wall_ms": t0.elapsed().as_millis() as u64,
    });
    write_summary(a, &summary);
    0
}

pub fn replay(a: &Args) -> i32 {
    install_quiet_panic_hook();
    let f = a.file.clone().expect("--file");
    let v: Value = serde_json::from_slice(&std::fs::read(&f).expect("read replay")).expect("json");
    let h: History = serde_json::from_value(v["history"].clone()).expect("history");
    let want: Violation = serde_json::from_value(v["violation"].clone()).expect("violation");
    match std::panic::catch_unwind(|| run_history(&h)) {
        Ok(rr) => match rr.violation {
            Some(got) if got.class == want.class => {
                println!("step {} ({}): {}", got.step, got.op, got.detail);
                println!("VIOLATION property=C18 replay={}", f);
                1
            }
            other => {
                println!("NOT-REPRODUCED property=C18 replay={} (now: {:?})", f, other);
                0
            }
        },
        Err(_) => {
            println!("NOT-REPRODUCED property=C18 replay={} (history panicked at {:?})", f, take_last_panic());
            0
        }
    }
}
