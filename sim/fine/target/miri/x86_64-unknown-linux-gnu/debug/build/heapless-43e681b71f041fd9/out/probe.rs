
#![no_std]

// `no_mangle` forces codegen, which makes llvm check the contents of the `asm!` macro
#[no_mangle]
unsafe fn asm() {
    core::arch::asm!("clrex");
}
