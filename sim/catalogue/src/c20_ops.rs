//! The C20 operation catalogue: every entry calls public geo API on a built input and returns
//! the canonical byte serialisation of the *whole* result (variant tags, lengths, member order,
//! `f64::to_bits` of every coordinate; NaNs collapsed).

#![allow(deprecated)]

use crate::c20_inputs::Input;
use geo::algorithm::bool_ops::{unary_union, BooleanOps};
use geo::algorithm::line_measures::{Densify, Distance, Euclidean, Geodesic, Haversine, Length, Rhumb};
use geo::algorithm::sweep::Intersections;
use geo::algorithm::*;
use geo::line_intersection::LineIntersection;
use geo::{Closest, PreparedGeometry};
use geo_types::{Coord, Geometry, GeometryCollection, Line, LineString, MultiLineString, MultiPoint, MultiPolygon, Point, Polygon, Rect, Triangle};
use rayon::prelude::*;
use simkit::Out;

// ---- canonical writers ----------------------------------------------------------------------

pub fn w_c(o: &mut Out, c: &Coord<f64>) {
    o.f64(c.x);
    o.f64(c.y);
}
pub fn w_pt(o: &mut Out, p: &Point<f64>) {
    w_c(o, &p.0)
}
pub fn w_ls(o: &mut Out, l: &LineString<f64>) {
    o.len(l.0.len());
    for c in &l.0 {
        w_c(o, c);
    }
}
pub fn w_poly(o: &mut Out, p: &Polygon<f64>) {
    w_ls(o, p.exterior());
    o.len(p.interiors().len());
    for r in p.interiors() {
        w_ls(o, r);
    }
}
pub fn w_mpoly(o: &mut Out, m: &MultiPolygon<f64>) {
    o.len(m.0.len());
    for p in &m.0 {
        w_poly(o, p);
    }
}
pub fn w_mls(o: &mut Out, m: &MultiLineString<f64>) {
    o.len(m.0.len());
    for l in &m.0 {
        w_ls(o, l);
    }
}
pub fn w_mpt(o: &mut Out, m: &MultiPoint<f64>) {
    o.len(m.0.len());
    for p in &m.0 {
        w_pt(o, p);
    }
}
pub fn w_line(o: &mut Out, l: &Line<f64>) {
    w_c(o, &l.start);
    w_c(o, &l.end);
}
pub fn w_tri(o: &mut Out, t: &Triangle<f64>) {
    w_c(o, &t.0);
    w_c(o, &t.1);
    w_c(o, &t.2);
}
pub fn w_rect(o: &mut Out, r: &Rect<f64>) {
    w_c(o, &r.min());
    w_c(o, &r.max());
}
pub fn w_geom(o: &mut Out, g: &Geometry<f64>) {
    match g {
        Geometry::Point(x) => {
            o.tag(1);
            w_pt(o, x)
        }
        Geometry::Line(x) => {
            o.tag(2);
            w_line(o, x)
        }
        Geometry::LineString(x) => {
            o.tag(3);
            w_ls(o, x)
        }
        Geometry::Polygon(x) => {
            o.tag(4);
            w_poly(o, x)
        }
        Geometry::MultiPoint(x) => {
            o.tag(5);
            w_mpt(o, x)
        }
        Geometry::MultiLineString(x) => {
            o.tag(6);
            w_mls(o, x)
        }
        Geometry::MultiPolygon(x) => {
            o.tag(7);
            w_mpoly(o, x)
        }
        Geometry::GeometryCollection(x) => {
            o.tag(8);
            o.len(x.0.len());
            for g in &x.0 {
                w_geom(o, g);
            }
        }
        Geometry::Rect(x) => {
            o.tag(9);
            w_rect(o, x)
        }
        Geometry::Triangle(x) => {
            o.tag(10);
            w_tri(o, x)
        }
    }
}
fn w_opt_pt(o: &mut Out, p: &Option<Point<f64>>) {
    match p {
        None => o.tag(0),
        Some(p) => {
            o.tag(1);
            w_pt(o, p)
        }
    }
}
fn w_closest(o: &mut Out, c: &Closest<f64>) {
    match c {
        Closest::Intersection(p) => {
            o.tag(1);
            w_pt(o, p)
        }
        Closest::SinglePoint(p) => {
            o.tag(2);
            w_pt(o, p)
        }
        Closest::Indeterminate => o.tag(3),
    }
}
fn w_dbg<T: std::fmt::Debug>(o: &mut Out, v: &T) {
    o.str(&format!("{:?}", v))
}

// ---- helpers --------------------------------------------------------------------------------

fn first_ring(i: &Input) -> LineString<f64> {
    i.a.0.first().map(|p| p.exterior().clone()).unwrap_or_else(|| LineString::new(vec![]))
}
fn first_poly(i: &Input) -> Polygon<f64> {
    i.a.0.first().cloned().unwrap_or_else(|| Polygon::new(LineString::new(vec![]), vec![]))
}
fn collection(i: &Input) -> GeometryCollection<f64> {
    GeometryCollection::new_from(vec![
        Geometry::MultiPolygon(i.a.clone()),
        Geometry::MultiLineString(i.mls.clone()),
        Geometry::MultiPoint(i.pts.clone()),
        Geometry::Polygon(first_poly(i)),
    ])
}
fn lonlat(p: &Point<f64>) -> Point<f64> {
    // squeeze arbitrary planar coordinates into valid lon/lat
    Point::new((p.x() * 0.37) % 170.0, (p.y() * 0.23) % 80.0)
}

// ---- the catalogue --------------------------------------------------------------------------

pub struct OpDef {
    pub name: &'static str,
    /// families the op is run on ("*" = all)
    pub families: &'static [&'static str],
    /// requires `Input::a_valid`
    pub needs_valid: bool,
    /// may be run on shipped-threshold (large) inputs
    pub large_ok: bool,
    pub f: fn(&Input, &mut Out),
}

const OVERLAY_FAMS: &[&str] = &["rects", "lattice", "circles", "combs", "starholes", "blobs", "tiles", "donuts", "archipelago", "mantissa"];
const POLY_FAMS: &[&str] = &["rects", "lattice", "circles", "combs", "starholes", "blobs", "tiles", "donuts", "archipelago", "mantissa"];
const VALID_FAMS: &[&str] = &["lattice", "circles", "combs", "starholes", "blobs", "donuts", "archipelago"];
/// non-overlapping members that may share edges (tilings): fine for triangulation and stitching
const TILING_FAMS: &[&str] = &["lattice", "circles", "combs", "starholes", "blobs", "tiles", "donuts", "archipelago"];
const POINT_FAMS: &[&str] = &["cloud", "rects", "starholes", "blobs", "mantissa", "circles"];
const ANY: &[&str] = &["*"];

/// configuration dimension `interleave`: operations that hand out a LAZY result (the planar sweep's
/// iterator) consume it while another such computation is alive on the same thread
static INTERLEAVE: std::sync::atomic::AtomicBool = std::sync::atomic::AtomicBool::new(false);
pub fn set_interleave(on: bool) {
    INTERLEAVE.store(on, std::sync::atomic::Ordering::SeqCst);
}
pub fn interleave_on() -> bool {
    INTERLEAVE.load(std::sync::atomic::Ordering::SeqCst)
}

macro_rules! op {
    ($name:expr, $fams:expr, $valid:expr, $large:expr, $f:expr) => {
        OpDef { name: $name, families: $fams, needs_valid: $valid, large_ok: $large, f: $f }
    };
}

fn stitch_input(i: &Input) -> Vec<Triangle<f64>> {
    i.a.0.iter().flat_map(|p| p.earcut_triangles()).collect()
}

pub static OPS: &[OpDef] = &[
    // ---- overlay (the parallel stages and hash maps of the overlay engine)
    op!("intersection", OVERLAY_FAMS, false, true, |i, o| w_mpoly(o, &i.a.intersection(&i.b))),
    op!("union", OVERLAY_FAMS, false, true, |i, o| w_mpoly(o, &i.a.union(&i.b))),
    op!("difference", OVERLAY_FAMS, false, true, |i, o| w_mpoly(o, &i.a.difference(&i.b))),
    op!("xor", OVERLAY_FAMS, false, true, |i, o| w_mpoly(o, &i.a.xor(&i.b))),
    op!("intersection_poly_poly", OVERLAY_FAMS, false, false, |i, o| {
        let (p, q) = (first_poly(i), i.b.0.first().cloned().unwrap_or_else(|| first_poly(i)));
        w_mpoly(o, &p.intersection(&q));
        w_mpoly(o, &p.union(&i.b));
    }),
    op!("clip", OVERLAY_FAMS, false, true, |i, o| w_mls(o, &i.a.clip(&i.mls, false))),
    op!("clip_invert", OVERLAY_FAMS, false, true, |i, o| w_mls(o, &i.a.clip(&i.mls, true))),
    op!("unary_union", OVERLAY_FAMS, false, true, |i, o| w_mpoly(o, &unary_union(i.a.0.iter().chain(i.b.0.iter())))),
    op!("unary_union_multi", OVERLAY_FAMS, false, false, |i, o| w_mpoly(o, &unary_union([&i.a, &i.b]))),
    // ---- hash-map users
    op!("stitch_triangulation", TILING_FAMS, true, false, |i, o| {
        let tris = stitch_input(i);
        match tris.stitch_triangulation() {
            Ok(mp) => {
                o.tag(1);
                w_mpoly(o, &mp)
            }
            Err(e) => {
                o.tag(0);
                w_dbg(o, &e)
            }
        }
        // the same triangles with every 20th one given twice (an edge then occurs three or four times: outside
        // the documented precondition, but whatever comes back - Ok or Err - must come back every time)
        // (each copy sits at a pseudo-random LATER position, as when two meshes are concatenated or interleaved)
        let n = tris.len();
        let mut after: Vec<Vec<usize>> = vec![vec![]; n + 1];
        let mut state = 0x9E37_79B9u64;
        for k in (0..n.saturating_sub(1)).step_by(20) {
            state = state.wrapping_mul(6364136223846793005).wrapping_add(1442695040888963407);
            after[k + 1 + (state >> 33) as usize % (n - k - 1)].push(k);
        }
        let mut dup = Vec::with_capacity(n + n / 20 + 1);
        for (k, t) in tris.iter().enumerate() {
            dup.push(*t);
            for &src in &after[k] {
                dup.push(tris[src]);
            }
        }
        match dup.stitch_triangulation() {
            Ok(mp) => {
                o.tag(1);
                w_mpoly(o, &mp)
            }
            Err(e) => {
                o.tag(0);
                w_dbg(o, &e)
            }
        }
        // a gap-free regular triangle grid of about the same size with copies of every 20th triangle
        // scattered over later positions (two meshes concatenated): every edge of a copied triangle occurs three times
        let g = (((n / 2) as f64).sqrt() as usize).clamp(3, 24);
        let cc = |x: usize, y: usize| Coord { x: x as f64, y: y as f64 };
        let mut base: Vec<Triangle<f64>> = Vec::with_capacity(2 * g * g);
        for y in 0..g {
            for x in 0..g {
                base.push(Triangle::new(cc(x, y), cc(x + 1, y), cc(x, y + 1)));
                base.push(Triangle::new(cc(x + 1, y + 1), cc(x, y + 1), cc(x + 1, y)));
            }
        }
        let m = base.len();
        let mut after: Vec<Vec<usize>> = vec![vec![]; m + 1];
        // (the copied triangles are lower triangles well inside the grid, no two of them adjacent: the result
        // stays Ok - an extra triangular ring per copy - and depends on WHICH of the three occurrences survives)
        let q = ((g - 2) / 2).max(1);
        for j in 0..g * g {
            let (x, y) = (1 + 2 * (j % q), 1 + 3 * (j / q));
            if y + 1 >= g || x + 1 >= g {
                break;
            }
            let k = 2 * (y * g + x);
            state = state.wrapping_mul(6364136223846793005).wrapping_add(1442695040888963407);
            after[k + 1 + (state >> 33) as usize % (m - k - 1)].push(k);
        }
        let mut grid = Vec::with_capacity(m + m / 20 + 1);
        for (k, t) in base.iter().enumerate() {
            grid.push(*t);
            for &src in &after[k] {
                grid.push(base[src]);
            }
        }
        match grid.stitch_triangulation() {
            Ok(mp) => {
                o.tag(1);
                w_mpoly(o, &mp)
            }
            Err(e) => {
                o.tag(0);
                w_dbg(o, &e)
            }
        }
    }),
    op!("earcut_triangles", POLY_FAMS, false, false, |i, o| {
        for p in i.a.0.iter().take(50) {
            let t = p.earcut_triangles();
            o.len(t.len());
            t.iter().for_each(|t| w_tri(o, t));
            let raw = p.earcut_triangles_raw();
            o.len(raw.triangle_indices.len());
            raw.triangle_indices.iter().for_each(|x| o.u64(*x as u64));
        }
    }),
    op!("constrained_triangulation", VALID_FAMS, true, false, |i, o| match geo::TriangulateDelaunay::constrained_triangulation(&first_poly(i), Default::default()) {
        Ok(t) => {
            o.len(t.len());
            t.iter().for_each(|t| w_tri(o, t))
        }
        Err(e) => w_dbg(o, &e),
    }),
    op!("constrained_outer_triangulation", TILING_FAMS, true, false, |i, o| match geo::TriangulateDelaunay::constrained_outer_triangulation(&i.a, Default::default()) {
        Ok(t) => {
            o.len(t.len());
            t.iter().for_each(|t| w_tri(o, t))
        }
        Err(e) => w_dbg(o, &e),
    }),
    op!("unconstrained_triangulation", TILING_FAMS, true, false, |i, o| match geo::TriangulateDelaunay::unconstrained_triangulation(&i.a) {
        Ok(t) => {
            o.len(t.len());
            t.iter().for_each(|t| w_tri(o, t))
        }
        Err(e) => w_dbg(o, &e),
    }),
    op!("constrained_triangulation_members", TILING_FAMS, true, false, |i, o| {
        // members as a MultiPolygon (inner triangulation), as a slice of polygons (outer), and
        // as the triangles of an earcut tiling
        match geo::TriangulateDelaunay::constrained_triangulation(&i.a, Default::default()) {
            Ok(t) => {
                o.len(t.len());
                t.iter().for_each(|t| w_tri(o, t))
            }
            Err(e) => w_dbg(o, &e),
        }
        let v: Vec<Polygon<f64>> = i.a.0.iter().take(40).cloned().collect();
        match geo::TriangulateDelaunay::constrained_outer_triangulation(&v, Default::default()) {
            Ok(t) => {
                o.len(t.len());
                t.iter().for_each(|t| w_tri(o, t))
            }
            Err(e) => w_dbg(o, &e),
        }
        let tris: Vec<Triangle<f64>> = stitch_input(i).into_iter().take(60).collect();
        match geo::TriangulateDelaunay::constrained_outer_triangulation(&tris, Default::default()) {
            Ok(t) => {
                o.len(t.len());
                t.iter().for_each(|t| w_tri(o, t))
            }
            Err(e) => w_dbg(o, &e),
        }
    }),
    op!("triangulation_overlapping", &["rects", "lattice", "tiles", "blobs", "donuts", "mantissa", "starholes"], false, false, |i, o| {
        // members of `a` and `b` interleaved: overlapping members and crossing outlines, which the
        // Delaunay front end resolves by splitting the crossing constraint lines pair by pair
        let v: Vec<Polygon<f64>> = i.a.0.iter().zip(i.b.0.iter()).flat_map(|(p, q)| [p.clone(), q.clone()]).take(48).collect();
        match geo::TriangulateDelaunay::constrained_outer_triangulation(&v, Default::default()) {
            Ok(t) => {
                o.len(t.len());
                t.iter().for_each(|t| w_tri(o, t))
            }
            Err(e) => w_dbg(o, &e),
        }
        match geo::TriangulateDelaunay::constrained_triangulation(&MultiPolygon::new(v.clone()), Default::default()) {
            Ok(t) => {
                o.len(t.len());
                t.iter().for_each(|t| w_tri(o, t))
            }
            Err(e) => w_dbg(o, &e),
        }
        match geo::TriangulateDelaunay::unconstrained_triangulation(&v) {
            Ok(t) => {
                o.len(t.len());
                t.iter().for_each(|t| w_tri(o, t))
            }
            Err(e) => w_dbg(o, &e),
        }
    }),
    op!("spade_constrained_triangulation", VALID_FAMS, true, false, |i, o| {
        use geo::TriangulateSpade;
        match TriangulateSpade::constrained_triangulation(&first_poly(i), Default::default()) {
            Ok(t) => {
                o.len(t.len());
                t.iter().for_each(|t| w_tri(o, t))
            }
            Err(e) => w_dbg(o, &e),
        }
    }),
    // ---- address users
    op!("sweep_intersections", &["segs", "rects", "blobs", "starholes"], false, false, |i, o| {
        let v: Vec<(Line<f64>, Line<f64>, LineIntersection<f64>)> = if interleave_on() {
            // the lazy iterator is drained while ANOTHER sweep over other segments (a few axis-parallel
            // ones: cannot run away) is alive on the same thread and is drained in lock-step
            let mut it = Intersections::from_iter(i.lines.iter().copied());
            let other: Vec<Line<f64>> = (0..6).map(|k| Line::new(Coord { x: k as f64, y: -50.0 }, Coord { x: if k % 2 == 0 { k as f64 } else { k as f64 + 3.0 }, y: if k % 2 == 0 { -40.0 } else { -50.0 } })).chain([Line::new(Coord { x: 0.0, y: -45.0 }, Coord { x: 9.0, y: -45.0 }), Line::new(Coord { x: 0.0, y: -45.0 }, Coord { x: 9.0, y: -45.0 })]).collect();
            let mut it2 = Intersections::from_iter(other.iter().copied());
            let mut v = vec![];
            loop {
                let a = it.next();
                let _ = it2.next();
                match a {
                    Some(x) => v.push(x),
                    None => break,
                }
            }
            v
        } else {
            Intersections::from_iter(i.lines.iter().copied()).collect()
        };
        o.len(v.len());
        for (a, b, x) in &v {
            w_line(o, a);
            w_line(o, b);
            match x {
                LineIntersection::SinglePoint { intersection, is_proper } => {
                    o.tag(1);
                    w_c(o, intersection);
                    o.bool(*is_proper)
                }
                LineIntersection::Collinear { intersection } => {
                    o.tag(2);
                    w_line(o, intersection)
                }
            }
        }
    }),
    op!("sweep_intersections_refs", &["segs"], false, false, |i, o| {
        let n = Intersections::from_iter(i.lines.iter()).map(|(a, b, _)| (*a, *b)).inspect(|(a, b)| {
            w_line(o, a);
            w_line(o, b)
        }).count();
        o.len(n);
    }),
    op!("interior_point", VALID_FAMS, true, false, |i, o| {
        w_opt_pt(o, &i.a.interior_point());
        for p in i.a.0.iter().take(20) {
            w_opt_pt(o, &p.interior_point());
        }
        w_opt_pt(o, &i.mls.interior_point());
    }),
    op!("monotone_subdivision", VALID_FAMS, true, false, |i, o| {
        let v = geo::algorithm::monotone::monotone_subdivision(i.a.0.iter().take(20).cloned());
        o.len(v.len());
        for m in v {
            let (t, b) = m.into_ls_pair();
            w_ls(o, &t);
            w_ls(o, &b);
        }
    }),
    // ---- spatial-index users and hulls
    op!("convex_hull", POINT_FAMS, false, false, |i, o| {
        w_poly(o, &i.pts.convex_hull());
        w_poly(o, &i.a.convex_hull());
        w_poly(o, &i.mls.convex_hull());
    }),
    op!("quick_and_graham_hull", POINT_FAMS, false, false, |i, o| {
        let mut v: Vec<Coord<f64>> = i.pts.0.iter().map(|p| p.0).collect();
        w_ls(o, &geo::algorithm::convex_hull::quick_hull(&mut v));
        let mut v: Vec<Coord<f64>> = i.pts.0.iter().map(|p| p.0).collect();
        w_ls(o, &geo::algorithm::convex_hull::graham_hull(&mut v, true));
    }),
    op!("concave_hull", POINT_FAMS, false, false, |i, o| {
        w_poly(o, &i.pts.concave_hull(2.0));
        w_poly(o, &i.a.concave_hull(1.5));
    }),
    op!("k_nearest_concave_hull", POINT_FAMS, false, false, |i, o| w_poly(o, &i.pts.k_nearest_concave_hull(3))),
    op!("outliers", POINT_FAMS, false, false, |i, o| {
        let k = 3.min(i.pts.0.len().saturating_sub(1)).max(1);
        let v = i.pts.outliers(k);
        o.len(v.len());
        v.iter().for_each(|x| o.f64(*x));
        // the ensemble API (several k over one prepared detector) and the slice receiver
        if i.pts.0.len() > 8 {
            let hi = 6.min(i.pts.0.len() - 2);
            for run in i.pts.generate_ensemble(2..=hi) {
                run.iter().for_each(|x| o.f64(*x));
            }
            i.pts.ensemble_min(2..=hi).iter().for_each(|x| o.f64(*x));
            i.pts.0[..].ensemble_max(3..=hi).iter().for_each(|x| o.f64(*x));
            let det = i.pts.prepared_detector();
            det.outliers(hi).iter().for_each(|x| o.f64(*x));
            det.outliers(2).iter().for_each(|x| o.f64(*x));
        }
    }),
    op!("minimum_rotated_rect", POINT_FAMS, false, false, |i, o| match i.pts.minimum_rotated_rect() {
        Some(p) => w_poly(o, &p),
        None => o.tag(0),
    }),
    op!("extremes", POINT_FAMS, false, false, |i, o| w_dbg(o, &i.pts.extremes())),
    // ---- simplification
    op!("simplify", POLY_FAMS, false, false, |i, o| {
        w_ls(o, &first_ring(i).simplify(0.5));
        w_mls(o, &i.mls.simplify(1.0));
        let idx = first_ring(i).simplify_idx(0.5);
        idx.iter().for_each(|x| o.u64(*x as u64));
        w_mpoly(o, &MultiPolygon::new(i.a.0.iter().take(30).cloned().collect()).simplify(0.25));
    }),
    op!("simplify_vw", POLY_FAMS, false, false, |i, o| {
        w_ls(o, &first_ring(i).simplify_vw(0.5));
        let idx = first_ring(i).simplify_vw_idx(0.5);
        idx.iter().for_each(|x| o.u64(*x as u64));
        w_mls(o, &i.mls.simplify_vw(1.0));
    }),
    op!("simplify_vw_preserve", POLY_FAMS, false, false, |i, o| {
        w_ls(o, &first_ring(i).simplify_vw_preserve(0.5));
        w_poly(o, &first_poly(i).simplify_vw_preserve(0.75));
        w_mls(o, &i.mls.simplify_vw_preserve(1.0));
    }),
    // ---- relate / predicates / validation
    op!("relate", POLY_FAMS, false, false, |i, o| {
        let (a, b) = (MultiPolygon::new(i.a.0.iter().take(12).cloned().collect()), MultiPolygon::new(i.b.0.iter().take(12).cloned().collect()));
        w_dbg(o, &a.relate(&b));
        w_dbg(o, &a.relate(&i.mls));
        w_dbg(o, &i.mls.relate(&i.pts));
        o.bool(a.intersects(&b));
        o.bool(a.contains(&i.pts));
    }),
    op!("prepared_relate", POLY_FAMS, false, false, |i, o| {
        let a = MultiPolygon::new(i.a.0.iter().take(12).cloned().collect());
        let p = PreparedGeometry::from(&a);
        for q in i.b.0.iter().take(6) {
            w_dbg(o, &p.relate(q));
            w_dbg(o, &q.relate(&p));
        }
        w_dbg(o, &p.relate(&p));
    }),
    op!("validation", POLY_FAMS, false, false, |i, o| {
        use geo::algorithm::validation::Validation;
        let a = MultiPolygon::new(i.a.0.iter().take(12).cloned().collect());
        o.bool(a.is_valid());
        w_dbg(o, &a.validation_errors());
        w_dbg(o, &first_poly(i).validation_errors());
        w_dbg(o, &i.mls.validation_errors());
    }),
    // ---- distances and measures
    op!("set_distances", &["cloud", "mantissa", "circles", "blobs"], false, false, |i, o| {
        // Hausdorff / Frechet between two coordinate sets of the SAME large size (both sides above any
        // plausible "go parallel" threshold): the points against a shifted, reversed copy, and as lines
        let n = i.pts.0.len().min(1100);
        let p1 = MultiPoint::new(i.pts.0[..n].to_vec());
        let p2 = MultiPoint::new(i.pts.0[..n].iter().rev().map(|p| Point::new(p.x() * 0.75 + 0.37, p.y() + p.x() * 0.125 - 0.11)).collect());
        o.f64(p1.hausdorff_distance(&p2));
        o.f64(p2.hausdorff_distance(&p1));
        let l1 = LineString::new(p1.0.iter().map(|p| p.0).collect());
        o.f64(l1.hausdorff_distance(&first_ring(i)));
        let m = n.min(300);
        let l2 = LineString::new(p2.0[..m].iter().map(|p| p.0).collect());
        o.f64(LineString::new(l1.0[..m].to_vec()).frechet_distance(&l2));
    }),
    op!("closest_point_many", &["lattice", "tiles", "rects"], false, false, |i, o| {
        // collections of (typically) more than 64 grid-aligned members, probed on the half grid: many probes are
        // EXACTLY equidistant from two or four members that lie far apart in member order
        let mls = MultiLineString::new(i.a.0.iter().map(|p| p.exterior().clone()).collect());
        let gc = GeometryCollection::new_from(i.a.0.iter().cloned().map(Geometry::Polygon).collect::<Vec<_>>());
        let k = ((i.a.0.len() as f64).sqrt() as usize).clamp(2, 16);
        for y in 0..k {
            for x in 0..k {
                for probe in [Point::new(x as f64 + 0.8, y as f64 + 0.3), Point::new(x as f64 + 0.3, y as f64 + 0.8), Point::new(x as f64 + 0.8, y as f64 + 0.8)] {
                    w_closest(o, &i.a.closest_point(&probe));
                    w_closest(o, &mls.closest_point(&probe));
                    w_closest(o, &gc.closest_point(&probe));
                }
            }
        }
    }),
    op!("distance", POLY_FAMS, false, false, |i, o| {
        let (p, q) = (first_poly(i), i.b.0.first().cloned().unwrap_or_else(|| first_poly(i)));
        o.f64(Euclidean.distance(&p, &q));
        if let Some(l) = i.mls.0.first() {
            o.f64(Euclidean.distance(l, &p));
            for pt in i.pts.0.iter().take(10) {
                o.f64(Euclidean.distance(pt, l));
                o.f64(Euclidean.distance(pt, &p));
                w_closest(o, &p.closest_point(pt));
                w_closest(o, &l.closest_point(pt));
            }
        }
        o.f64(i.pts.hausdorff_distance(&first_ring(i)));
        if i.mls.0.len() >= 2 && !i.mls.0[0].0.is_empty() && !i.mls.0[1].0.is_empty() {
            o.f64(geo::algorithm::line_measures::FrechetDistance::frechet_distance(&Euclidean, &i.mls.0[0], &i.mls.0[1]));
        }
    }),
    op!("densify_segmentize", POLY_FAMS, false, false, |i, o| {
        w_ls(o, &Euclidean.densify(&first_ring(i), 0.7));
        if let Some(l) = i.mls.0.first() {
            match l.line_segmentize(5) {
                Some(m) => w_mls(o, &m),
                None => o.tag(0),
            }
            w_ls(o, &l.chaikin_smoothing(2));
            w_ls(o, &l.remove_repeated_points());
            w_opt_pt(o, &l.line_interpolate_point(0.3));
        }
    }),
    // ---- aggregates over many members (sequential folds today; see DESIGN.md §3)
    op!("aggregates", ANY, false, false, |i, o| {
        o.f64(i.a.unsigned_area());
        o.f64(i.a.signed_area());
        w_opt_pt(o, &i.a.centroid());
        w_opt_pt(o, &i.mls.centroid());
        w_opt_pt(o, &i.pts.centroid());
        o.f64(Euclidean.length(&i.mls));
        w_dbg(o, &i.a.bounding_rect());
        w_dbg(o, &i.pts.bounding_rect());
        o.u64(i.a.coords_count() as u64);
        let gc = collection(i);
        o.f64(gc.unsigned_area());
        w_opt_pt(o, &gc.centroid());
        w_dbg(o, &gc.bounding_rect());
        o.f64(i.a.geodesic_area_signed());
        o.f64(i.a.chamberlain_duquette_signed_area());
    }),
    op!("geodesic_aggregates", ANY, false, false, |i, o| {
        // the same members squeezed into valid lon/lat, so that the geodesic folds are finite
        let ll = |c: &Coord<f64>| Coord { x: (c.x * 0.37) % 170.0, y: (c.y * 0.23) % 80.0 };
        let mp = MultiPolygon::new(
            i.a.0.iter().map(|p| Polygon::new(LineString::new(p.exterior().0.iter().map(ll).collect()), p.interiors().iter().map(|r| LineString::new(r.0.iter().map(ll).collect())).collect())).collect(),
        );
        o.f64(mp.geodesic_area_signed());
        o.f64(mp.geodesic_area_unsigned());
        o.f64(mp.geodesic_perimeter());
        let (p, a) = mp.geodesic_perimeter_area_signed();
        o.f64(p);
        o.f64(a);
        o.f64(mp.chamberlain_duquette_unsigned_area());
        let ml = MultiLineString::new(i.mls.0.iter().map(|l| LineString::new(l.0.iter().map(ll).collect())).collect());
        o.f64(Geodesic.length(&ml));
        o.f64(Haversine.length(&ml));
        o.f64(Rhumb.length(&ml));
        let gc = GeometryCollection::new_from(vec![Geometry::MultiPolygon(mp.clone()), Geometry::MultiLineString(ml)]);
        o.f64(gc.geodesic_area_signed());
        w_opt_pt(o, &mp.centroid());
        o.f64(mp.unsigned_area());
    }),
    // ---- geodesic family (first use initialises the process-wide LazyLock)
    op!("geodesic", POINT_FAMS, false, false, |i, o| {
        let ps: Vec<Point<f64>> = i.pts.0.iter().take(12).map(lonlat).collect();
        for w in ps.windows(2) {
            o.f64(Geodesic.distance(w[0], w[1]));
            o.f64(Haversine.distance(w[0], w[1]));
            o.f64(Rhumb.distance(w[0], w[1]));
            w_pt(o, &geo::algorithm::line_measures::Destination::destination(&Geodesic, w[0], 33.0, 12345.0));
            w_pt(o, &geo::algorithm::line_measures::InterpolatePoint::point_at_ratio_between(&Geodesic, w[0], w[1], 0.25));
        }
        let l = LineString::new(ps.iter().map(|p| p.0).collect());
        o.f64(Geodesic.length(&l));
        o.f64(Haversine.length(&l));
    }),
    // ---- coordinate-wise transforms and traversals over every member (sequential maps today)
    op!("transforms", POLY_FAMS, false, false, |i, o| {
        use geo::algorithm::orient::Direction;
        let a = &i.a;
        w_mpoly(o, &a.rotate_around_centroid(33.0));
        w_mpoly(o, &a.rotate_around_center(-12.5));
        w_mpoly(o, &a.rotate_around_point(90.0, Point::new(1.0, 2.0)));
        w_mpoly(o, &a.scale(1.5));
        w_mpoly(o, &a.scale_xy(0.5, 2.0));
        w_mpoly(o, &a.skew_xy(10.0, -5.0));
        w_mpoly(o, &a.translate(0.125, -7.0));
        w_mpoly(o, &a.affine_transform(&AffineTransform::new(1.0, 0.25, 3.0, -0.5, 2.0, 1.0)));
        w_mpoly(o, &a.map_coords(|c| Coord { x: c.y * 2.0, y: c.x - 1.0 }));
        w_mpoly(o, &a.orient(Direction::Default));
        w_mpoly(o, &a.orient(Direction::Reversed));
        w_mls(o, &i.mls.rotate_around_centroid(45.0));
        w_mpt(o, &i.pts.scale(3.0));
        let mut m = a.clone();
        m.rotate_around_centroid_mut(7.0);
        m.map_coords_in_place(|c| Coord { x: c.x + 0.5, y: c.y });
        m.remove_repeated_points_mut();
        w_mpoly(o, &m);
        let f32s: MultiPolygon<f32> = a.map_coords(|c| Coord { x: c.x as f32, y: c.y as f32 });
        let back: MultiPolygon<f64> = geo::algorithm::Convert::convert(&f32s);
        w_mpoly(o, &back);
        let gc = collection(i);
        w_geom(o, &Geometry::GeometryCollection(gc.rotate_around_centroid(5.0)));
        w_geom(o, &Geometry::GeometryCollection(gc.map_coords(|c| Coord { x: -c.x, y: c.y })));
    }),
    op!("traversals", ANY, false, false, |i, o| {
        let gc = collection(i);
        let cs: Vec<Coord<f64>> = gc.coords_iter().collect();
        o.len(cs.len());
        cs.iter().for_each(|c| w_c(o, c));
        let ex: Vec<Coord<f64>> = i.a.exterior_coords_iter().collect();
        ex.iter().for_each(|c| w_c(o, c));
        let ls: Vec<Line<f64>> = i.a.lines_iter().collect();
        o.len(ls.len());
        ls.iter().take(4000).for_each(|l| w_line(o, l));
        o.u64(gc.coords_count() as u64);
        for p in i.a.0.iter().take(200) {
            o.bool(p.exterior().is_convex());
            o.bool(p.exterior().is_cw());
            o.tag(match p.exterior().winding_order() {
                None => 0,
                Some(geo::algorithm::winding_order::WindingOrder::Clockwise) => 1,
                Some(_) => 2,
            });
        }
        // positions / predicates of many points against the members
        for pt in i.pts.0.iter().take(300) {
            w_dbg(o, &i.a.coordinate_position(&pt.0));
            o.bool(i.a.contains(pt));
            o.bool(pt.is_within(&i.a));
            o.bool(i.mls.intersects(pt));
        }
        if let Some(l) = i.mls.0.first() {
            for pt in i.pts.0.iter().take(50) {
                match l.line_locate_point(pt) {
                    Some(f) => o.f64(f),
                    None => o.tag(0),
                }
            }
        }
        w_dbg(o, &gc.dimensions());
        w_dbg(o, &i.a.boundary_dimensions());
    }),
    op!("sphere_measures", POINT_FAMS, false, false, |i, o| {
        let ps: Vec<Point<f64>> = i.pts.0.iter().take(40).map(lonlat).collect();
        for w in ps.windows(3) {
            o.f64(geo::algorithm::line_measures::Bearing::bearing(&Haversine, w[0], w[1]));
            o.f64(geo::algorithm::line_measures::Bearing::bearing(&Geodesic, w[0], w[1]));
            o.f64(geo::algorithm::line_measures::Bearing::bearing(&Rhumb, w[0], w[1]));
            o.f64(w[0].cross_track_distance(&w[1], &w[2]));
            w_pt(o, &geo::algorithm::line_measures::InterpolatePoint::point_at_ratio_between(&Haversine, w[0], w[1], 0.3));
            w_pt(o, &geo::algorithm::line_measures::Destination::destination(&Rhumb, w[0], 45.0, 10_000.0));
            match w[0].vincenty_distance(&w[1]) {
                Ok(d) => o.f64(d),
                Err(_) => o.tag(0),
            }
        }
        let l = LineString::new(ps.iter().map(|p| p.0).collect());
        if l.0.len() >= 2 {
            let d = geo::algorithm::line_measures::Densify::densify(&Haversine, &l, 50_000.0);
            o.len(d.0.len());
            d.0.iter().take(500).for_each(|c| w_c(o, c));
            for p in ps.iter().take(10) {
                w_closest(o, &l.haversine_closest_point(p));
            }
        }
    }),
    // ---- remaining per-geometry algorithms, over every geometry type built from the input
    op!("misc_per_type", ANY, false, false, |i, o| {
        let poly = first_poly(i);
        let ring = first_ring(i);
        let line = i.lines.first().copied().unwrap_or_else(|| Line::new(Coord { x: 0.0, y: 0.0 }, Coord { x: 1.0, y: 1.0 }));
        let rect = poly.bounding_rect().unwrap_or_else(|| Rect::new(Coord { x: 0.0, y: 0.0 }, Coord { x: 1.0, y: 1.0 }));
        let tri = match ring.0[..] {
            [a, b, c, ..] => Triangle::new(a, b, c),
            _ => Triangle::new(Coord { x: 0.0, y: 0.0 }, Coord { x: 1.0, y: 0.0 }, Coord { x: 0.0, y: 1.0 }),
        };
        let gs: Vec<Geometry<f64>> = vec![
            Geometry::Point(i.pts.0.first().copied().unwrap_or_else(|| Point::new(0.0, 0.0))),
            Geometry::Line(line),
            Geometry::LineString(ring.clone()),
            Geometry::Polygon(poly.clone()),
            Geometry::MultiPoint(MultiPoint::new(i.pts.0.iter().take(200).copied().collect())),
            Geometry::MultiLineString(i.mls.clone()),
            Geometry::MultiPolygon(MultiPolygon::new(i.a.0.iter().take(100).cloned().collect())),
            Geometry::Rect(rect),
            Geometry::Triangle(tri),
            Geometry::GeometryCollection(collection(i)),
        ];
        let probe = i.pts.0.get(1).copied().unwrap_or_else(|| Point::new(0.5, 0.25));
        for g in &gs {
            w_opt_pt(o, &g.centroid());
            w_opt_pt(o, &g.interior_point());
            w_dbg(o, &g.bounding_rect());
            o.f64(g.unsigned_area());
            w_poly(o, &g.convex_hull());
            w_closest(o, &g.closest_point(&probe));
            w_dbg(o, &g.dimensions());
            o.u64(g.coords_count() as u64);
            o.bool(g.intersects(&probe));
            o.bool(g.contains(&probe));
            o.f64(Euclidean.distance(g, &probe));
            w_dbg(o, &g.extremes());
        }
        // pairwise predicates between the first members (booleans and matrices)
        for (k, a) in i.a.0.iter().take(8).enumerate() {
            for b in i.a.0.iter().take(8).skip(k) {
                o.bool(a.intersects(b));
                o.bool(a.contains(b));
                o.bool(a.is_within(b));
            }
        }
        if ring.0.len() >= 2 {
            w_opt_pt(o, &ring.line_interpolate_point(0.37));
            let ll = LineString::new(ring.0.iter().take(60).map(|c| Coord { x: (c.x * 0.37) % 170.0, y: (c.y * 0.23) % 80.0 }).collect());
            o.f64(ll.vincenty_length().unwrap_or(-1.0));
            match ll.line_segmentize_haversine(4) {
                Some(m) => w_mls(o, &m),
                None => o.tag(0),
            }
            w_ls(o, &geo::algorithm::DensifyHaversine::densify_haversine(&ll, 100_000.0));
        }
    }),
    // ---- heterogeneous collections: members of different dimension, nested, on grid
    //      coordinates (exact ties between candidates of different kind)
    op!("collection_ops", &["rects", "segs", "cloud", "blobs", "tiles", "lattice", "starholes"], false, false, |i, o| {
        let pt = |k: usize| i.pts.0.get(k % i.pts.0.len().max(1)).copied().unwrap_or_else(|| Point::new(k as f64, 0.0));
        let ln = |k: usize| i.lines.get(k % i.lines.len().max(1)).copied().unwrap_or_else(|| Line::new(Coord { x: 0.0, y: k as f64 }, Coord { x: 2.0, y: k as f64 }));
        let ls0 = i.mls.0.first().cloned().unwrap_or_else(|| LineString::new(vec![Coord { x: -1.0, y: -2.0 }, Coord { x: 1.0, y: -2.0 }]));
        let lineal_puntal = vec![
            Geometry::Point(pt(0)),
            Geometry::Line(ln(0)),
            Geometry::MultiPoint(MultiPoint::new((1..5).map(pt).collect())),
            Geometry::LineString(ls0),
            Geometry::GeometryCollection(GeometryCollection::new_from(vec![Geometry::Point(pt(5)), Geometry::Line(ln(1)), Geometry::MultiPoint(MultiPoint::new(vec![]))])),
            Geometry::Line(ln(2)),
            Geometry::Point(pt(6)),
        ];
        let gc1 = GeometryCollection::new_from(lineal_puntal.clone());
        let mut with_area = lineal_puntal;
        with_area.insert(2, Geometry::Polygon(first_poly(i)));
        with_area.push(Geometry::Rect(Rect::new(pt(7).0, pt(8).0)));
        with_area.push(Geometry::Triangle(Triangle::new(pt(9).0, pt(10).0, pt(11).0)));
        let gc2 = GeometryCollection::new_from(with_area);
        // probes: input points and the grid points around the first of them
        let base = pt(0);
        let mut probes: Vec<Point<f64>> = i.pts.0.iter().take(20).copied().collect();
        for dx in -2..=2 {
            for dy in -2..=2 {
                probes.push(Point::new(base.x().round() + dx as f64, base.y().round() + dy as f64));
            }
        }
        for gc in [&gc1, &gc2] {
            for p in &probes {
                w_closest(o, &gc.closest_point(p));
                o.f64(Euclidean.distance(&Geometry::GeometryCollection(gc.clone()), p));
                o.bool(gc.intersects(p));
                o.bool(gc.contains(p));
                w_dbg(o, &gc.coordinate_position(&p.0));
            }
            w_closest(o, &Geometry::GeometryCollection(gc.clone()).closest_point(&probes[0]));
            w_opt_pt(o, &gc.centroid());
            w_opt_pt(o, &gc.interior_point());
            w_dbg(o, &gc.bounding_rect());
            w_poly(o, &gc.convex_hull());
            o.f64(gc.unsigned_area());
            w_dbg(o, &gc.dimensions());
            w_dbg(o, &gc.boundary_dimensions());
            o.u64(gc.coords_count() as u64);
            let cs: Vec<Coord<f64>> = gc.coords_iter().collect();
            cs.iter().for_each(|c| w_c(o, c));
            w_dbg(o, &gc.relate(&first_poly(i)));
            w_dbg(o, &first_poly(i).relate(gc));
            w_geom(o, &Geometry::GeometryCollection(gc.map_coords(|c| Coord { x: c.y, y: c.x })));
            w_dbg(o, &gc.extremes());
            o.f64(gc.hausdorff_distance(&i.pts));
        }
    }),
    // ---- the par-iter surface of geo-types (user-level ordered collects)
    op!("par_iter_multipolygon", POLY_FAMS, false, false, |i, o| {
        let areas: Vec<f64> = i.a.par_iter().map(|p| p.unsigned_area()).collect();
        areas.iter().for_each(|x| o.f64(*x));
        let cs: Vec<Option<Point<f64>>> = i.a.clone().into_par_iter().map(|p| p.centroid()).collect();
        cs.iter().for_each(|x| w_opt_pt(o, x));
        let mut m = i.a.clone();
        m.par_iter_mut().for_each(|p| p.translate_mut(1.5, -0.25));
        w_mpoly(o, &m);
        let hulls: Vec<Polygon<f64>> = i.a.par_iter().map(|p| p.convex_hull()).collect();
        hulls.iter().for_each(|p| w_poly(o, p));
    }),
    op!("par_iter_multipoint_mls", ANY, false, false, |i, o| {
        let xs: Vec<f64> = i.pts.par_iter().map(|p| p.x() * 3.0 + p.y()).collect();
        xs.iter().for_each(|x| o.f64(*x));
        let v: Vec<Point<f64>> = i.pts.clone().into_par_iter().map(|p| p.translate(0.5, 0.5)).collect();
        v.iter().for_each(|p| w_pt(o, p));
        let mut m = i.pts.clone();
        m.par_iter_mut().for_each(|p| *p = Point::new(p.y(), p.x()));
        w_mpt(o, &m);
        let ls: Vec<f64> = i.mls.par_iter().map(|l| Euclidean.length(l)).collect();
        ls.iter().for_each(|x| o.f64(*x));
        let v: Vec<LineString<f64>> = i.mls.clone().into_par_iter().map(|l| l.simplify(0.5)).collect();
        v.iter().for_each(|l| w_ls(o, l));
        let mut m = i.mls.clone();
        m.par_iter_mut().for_each(|l| l.0.reverse());
        w_mls(o, &m);
    }),
];

pub fn find(name: &str) -> Option<&'static OpDef> {
    OPS.iter().find(|o| o.name == name)
}

pub fn compatible(op: &OpDef, family: &str) -> bool {
    op.families.contains(&"*") || op.families.contains(&family)
}
