//! Fine-grained tier of the C20 check: the real `rayon-core` thread pool, interpreted by Miri,
//! whose seeded scheduler pre-empts at basic-block granularity (one `-Zmiri-seed` = one exactly
//! repeatable execution).  Each scenario is computed under a 1-thread pool (the sequential
//! reference) and under a multi-thread pool; the canonical bytes must be equal.
//!
//! usage: fine <scenario> [threads] [members]      exit 0 = equal, exit 1 = differs (prints DIFFERS)

use geo::algorithm::bool_ops::BooleanOps;
use geo::algorithm::{Area, BoundingRect, Centroid, ConvexHull, StitchTriangles, Translate, TriangulateEarcut};
use geo_types::{Coord, LineString, MultiLineString, MultiPoint, MultiPolygon, Point, Polygon};
use rayon::prelude::*;

fn sq(x: f64, y: f64, s: f64) -> Polygon<f64> {
    Polygon::new(
        LineString::new(vec![
            Coord { x, y },
            Coord { x: x + s, y },
            Coord { x: x + s, y: y + s },
            Coord { x, y: y + s },
            Coord { x, y },
        ]),
        vec![],
    )
}

fn mp(n: usize) -> MultiPolygon<f64> {
    MultiPolygon::new((0..n).map(|i| sq(i as f64 * 1.37, (i * 7 % 5) as f64 * 0.61, 0.5 + (i % 3) as f64 * 0.173)).collect())
}

fn w(o: &mut Vec<u8>, v: f64) {
    o.extend_from_slice(&v.to_bits().to_le_bytes());
}
fn wpoly(o: &mut Vec<u8>, p: &Polygon<f64>) {
    o.extend_from_slice(&(p.exterior().0.len() as u64).to_le_bytes());
    for c in &p.exterior().0 {
        w(o, c.x);
        w(o, c.y);
    }
    o.extend_from_slice(&(p.interiors().len() as u64).to_le_bytes());
    for r in p.interiors() {
        o.extend_from_slice(&(r.0.len() as u64).to_le_bytes());
        for c in &r.0 {
            w(o, c.x);
            w(o, c.y);
        }
    }
}
fn wmp(o: &mut Vec<u8>, m: &MultiPolygon<f64>) {
    o.extend_from_slice(&(m.0.len() as u64).to_le_bytes());
    for p in &m.0 {
        wpoly(o, p);
    }
}

fn scenario(name: &str, n: usize) -> Vec<u8> {
    let mut o = Vec::new();
    match name {
        // the par-iter surface of geo-types: ordered collects must come back in member order
        "par_iter_multipolygon" => {
            let m = mp(n);
            let a: Vec<f64> = m.par_iter().map(|p| p.unsigned_area()).collect();
            a.iter().for_each(|x| w(&mut o, *x));
            let c: Vec<Option<Point<f64>>> = m.clone().into_par_iter().map(|p| p.centroid()).collect();
            c.iter().for_each(|p| {
                if let Some(p) = p {
                    w(&mut o, p.x());
                    w(&mut o, p.y())
                }
            });
            let mut m2 = m.clone();
            m2.par_iter_mut().for_each(|p| p.translate_mut(0.25, -1.5));
            wmp(&mut o, &m2);
        }
        "par_iter_multipoint" => {
            let m = MultiPoint::new((0..n * 2).map(|i| Point::new(i as f64 * 0.3, (i * i % 11) as f64)).collect());
            let a: Vec<f64> = m.par_iter().map(|p| p.x() * 3.0 - p.y()).collect();
            a.iter().for_each(|x| w(&mut o, *x));
            let b: Vec<Point<f64>> = m.clone().into_par_iter().map(|p| Point::new(p.y(), p.x())).collect();
            b.iter().for_each(|p| {
                w(&mut o, p.x());
                w(&mut o, p.y())
            });
            let mut m2 = m;
            m2.par_iter_mut().for_each(|p| *p = Point::new(p.x() + 1.0, p.y()));
            m2.0.iter().for_each(|p| {
                w(&mut o, p.x());
                w(&mut o, p.y())
            });
        }
        "par_iter_multilinestring" => {
            let m = MultiLineString::new((0..n).map(|i| LineString::new((0..4).map(|k| Coord { x: (i * 4 + k) as f64, y: ((i + k) % 3) as f64 }).collect())).collect());
            let a: Vec<usize> = m.par_iter().map(|l| l.0.len()).collect();
            a.iter().for_each(|x| o.extend_from_slice(&(*x as u64).to_le_bytes()));
            let b: Vec<Option<geo_types::Rect<f64>>> = m.clone().into_par_iter().map(|l| l.bounding_rect()).collect();
            b.iter().flatten().for_each(|r| {
                w(&mut o, r.min().x);
                w(&mut o, r.max().y)
            });
            let mut m2 = m;
            m2.par_iter_mut().for_each(|l| l.0.reverse());
            m2.0.iter().flat_map(|l| l.0.iter()).for_each(|c| {
                w(&mut o, c.x);
                w(&mut o, c.y)
            });
        }
        // thorough only: geo algorithms over many members / long rings, above the sizes at which
        // code typically goes parallel (an in-job race there is invisible to the job-granular stub)
        "aggregates_many" => {
            use geo::algorithm::{ChamberlainDuquetteArea, CoordsIter, GeodesicArea};
            let m = mp(n);
            w(&mut o, m.unsigned_area());
            w(&mut o, m.signed_area());
            if let Some(c) = m.centroid() {
                w(&mut o, c.x());
                w(&mut o, c.y());
            }
            w(&mut o, m.geodesic_area_signed());
            w(&mut o, m.geodesic_perimeter());
            w(&mut o, m.chamberlain_duquette_unsigned_area());
            if let Some(r) = m.bounding_rect() {
                w(&mut o, r.min().x);
                w(&mut o, r.max().y);
            }
            o.extend_from_slice(&(m.coords_count() as u64).to_le_bytes());
        }
        "hulls_many" => {
            let m = mp(n);
            wpoly(&mut o, &m.convex_hull());
            let pts = MultiPoint::new(m.0.iter().flat_map(|p| p.exterior().0.iter().map(|c| Point(*c))).collect());
            wpoly(&mut o, &pts.convex_hull());
        }
        "simplify_long" => {
            use geo::algorithm::Simplify;
            let l = LineString::new((0..n * 8).map(|i| Coord { x: i as f64 * 0.1, y: ((i * 37 % 101) as f64) * 0.013 + (i as f64 * 0.05).sin() }).collect());
            let sl = l.simplify(0.05);
            o.extend_from_slice(&(sl.0.len() as u64).to_le_bytes());
            sl.0.iter().for_each(|c| {
                w(&mut o, c.x);
                w(&mut o, c.y)
            });
        }
        // thorough only: the whole geo crate under the interpreter
        "overlay_small" => {
            let a = mp(5);
            let b = MultiPolygon::new(a.0.iter().map(|p| p.translate(0.3, 0.2)).collect());
            wmp(&mut o, &a.intersection(&b));
            wmp(&mut o, &a.union(&b));
        }
        "stitch_small" => {
            let m = mp(4);
            let tris: Vec<_> = m.0.iter().flat_map(|p| p.earcut_triangles()).collect();
            wmp(&mut o, &tris.stitch_triangulation().unwrap());
            wpoly(&mut o, &m.convex_hull());
        }
        _ => {
            eprintln!("unknown scenario {name}");
            std::process::exit(2);
        }
    }
    o
}

/// The catalogue under the interpreter: one entry per collection-producing (or folding) geo
/// algorithm, on inputs just above the sizes at which code typically "goes parallel" (64-300
/// members / points / vertices).  `catalogue <threads> <n> [first..last]` runs the entries under a
/// 1-thread pool and under a `threads`-thread pool of the REAL rayon-core; a race INSIDE jobs
/// (check-then-act on an atomic, a lock-protected accumulator whose update order matters) that the
/// job-granular `sched` engine cannot reach shows here as a per-entry difference.
fn lcg(s: &mut u64) -> f64 {
    *s = s.wrapping_mul(6364136223846793005).wrapping_add(1442695040888963407);
    ((*s >> 11) as f64) / ((1u64 << 53) as f64)
}

const CATALOGUE: &[&str] = &[
    "hulls", "concave_hull", "knn_hull", "simplify", "simplify_vw", "outliers", "earcut_stitch", "delaunay", "relate_valid", "folds",
    "densify_chaikin", "closest_distances", "interior_monotone", "sweep", "bool_ops", "unary_union", "rotated_extremes", "geodesic", "transforms", "collection",
];

fn catalogue_entry(name: &str, n: usize) -> Vec<u8> {
    use geo::algorithm::line_measures::{Distance, Euclidean, Length};
    use geo::algorithm::*;
    let mut o = Vec::new();
    let mut s = 0x5eed_u64 ^ (name.len() as u64 * 977);
    // a point cloud with exact ties (a coarse grid part) and a full-mantissa part
    let cloud: Vec<Point<f64>> = (0..n).map(|i| if i % 3 == 0 { Point::new((i % 17) as f64, (i / 17) as f64) } else { Point::new(lcg(&mut s) * 16.0, lcg(&mut s) * 16.0) }).collect();
    let mpts = MultiPoint::new(cloud.clone());
    // a star-shaped ring of n vertices (valid polygon)
    let ring: Vec<Coord<f64>> = {
        let mut v: Vec<Coord<f64>> = (0..n)
            .map(|i| {
                // rational parametrisation of the circle (no transcendental functions)
                let t = -1.0 + 2.0 * (i as f64 + 0.5) / n as f64;
                let (cx, cy) = ((1.0 - t * t) / (1.0 + t * t), 2.0 * t / (1.0 + t * t));
                let r = 6.0 + 3.0 * lcg(&mut s);
                Coord { x: 10.0 + r * cx, y: 10.0 + r * cy }
            })
            .collect();
        v.push(Coord { x: 10.0 - 7.0, y: 10.0 });
        v.push(v[0]);
        v
    };
    let poly = Polygon::new(LineString::new(ring.clone()), vec![]);
    let line = LineString::new(ring[..ring.len() - 1].to_vec());
    let many = mp(n);
    match name {
        "hulls" => {
            wpoly(&mut o, &mpts.convex_hull());
            wpoly(&mut o, &many.convex_hull());
            let mut c: Vec<Coord<f64>> = cloud.iter().map(|p| p.0).collect();
            wpoly(&mut o, &Polygon::new(geo::algorithm::convex_hull::quick_hull(&mut c), vec![]));
            let mut c: Vec<Coord<f64>> = cloud.iter().map(|p| p.0).collect();
            wpoly(&mut o, &Polygon::new(geo::algorithm::convex_hull::graham_hull(&mut c, true), vec![]));
        }
        "concave_hull" => {
            wpoly(&mut o, &mpts.concave_hull(2.0));
            wpoly(&mut o, &many.concave_hull(1.0));
        }
        "knn_hull" => wpoly(&mut o, &mpts.k_nearest_concave_hull(5)),
        "simplify" => {
            wpoly(&mut o, &poly.simplify(0.4));
            line.simplify_idx(0.4).iter().for_each(|x| o.extend_from_slice(&(*x as u64).to_le_bytes()));
            wmp(&mut o, &many.simplify(0.1));
        }
        "simplify_vw" => {
            wpoly(&mut o, &poly.simplify_vw(0.4));
            line.simplify_vw_idx(0.4).iter().for_each(|x| o.extend_from_slice(&(*x as u64).to_le_bytes()));
            wpoly(&mut o, &poly.simplify_vw_preserve(0.4));
        }
        "outliers" => mpts.outliers(6).iter().for_each(|x| w(&mut o, *x)),
        "earcut_stitch" => {
            let tris = poly.earcut_triangles();
            o.extend_from_slice(&(tris.len() as u64).to_le_bytes());
            tris.iter().for_each(|t| {
                w(&mut o, t.0.x);
                w(&mut o, t.1.y);
                w(&mut o, t.2.x)
            });
            let all: Vec<_> = many.0.iter().flat_map(|p| p.earcut_triangles()).chain(tris).collect();
            if let Ok(m) = all.stitch_triangulation() {
                wmp(&mut o, &m);
            }
        }
        "delaunay" => {
            let small = Polygon::new(LineString::new(ring.iter().step_by(3).copied().chain([ring[0]]).collect()), vec![]);
            for t in geo::TriangulateDelaunay::constrained_triangulation(&small, Default::default()).unwrap_or_default().iter().chain(geo::TriangulateDelaunay::unconstrained_triangulation(&small).unwrap_or_default().iter()) {
                w(&mut o, t.0.x);
                w(&mut o, t.1.y);
                w(&mut o, t.2.x);
            }
        }
        "relate_valid" => {
            let other = sq(6.0, 6.0, 9.0);
            o.extend_from_slice(format!("{:?}{:?}", poly.relate(&other), many.relate(&other)).as_bytes());
            let prep = geo::algorithm::relate::PreparedGeometry::from(&many);
            o.extend_from_slice(format!("{:?}", prep.relate(&other)).as_bytes());
            o.push(many.is_valid() as u8);
            o.push(poly.is_valid() as u8);
            let overlapping = MultiPolygon::new(many.0.iter().cloned().chain(many.0.iter().map(|p| p.translate(0.2, 0.1))).collect());
            o.extend_from_slice(format!("{:?}", overlapping.validation_errors()).as_bytes());
            o.push(many.intersects(&other) as u8);
            o.push(many.contains(&Point::new(0.2, 0.2)) as u8);
            o.push(poly.contains(&other) as u8);
        }
        "folds" => {
            w(&mut o, many.unsigned_area());
            w(&mut o, many.signed_area());
            w(&mut o, poly.signed_area());
            for c in [many.centroid(), mpts.centroid(), line.centroid(), poly.centroid()].into_iter().flatten() {
                w(&mut o, c.x());
                w(&mut o, c.y());
            }
            w(&mut o, Euclidean.length(&line));
            let mls = MultiLineString::new(many.0.iter().map(|p| p.exterior().clone()).collect());
            w(&mut o, Euclidean.length(&mls));
            for r in [many.bounding_rect(), mpts.bounding_rect(), mls.bounding_rect()].into_iter().flatten() {
                w(&mut o, r.min().x);
                w(&mut o, r.max().y);
            }
            o.extend_from_slice(&(many.coords_count() as u64).to_le_bytes());
        }
        "densify_chaikin" => {
            let d = geo::algorithm::line_measures::Densify::densify(&Euclidean, &line, 0.7);
            o.extend_from_slice(&(d.0.len() as u64).to_le_bytes());
            d.0.iter().for_each(|c| w(&mut o, c.x + c.y));
            let c = line.chaikin_smoothing(2);
            c.0.iter().for_each(|c| w(&mut o, c.x - c.y));
            let r = LineString::new(ring.iter().flat_map(|c| [*c, *c]).collect()).remove_repeated_points();
            o.extend_from_slice(&(r.0.len() as u64).to_le_bytes());
        }
        "closest_distances" => {
            let q = Point::new(3.25, 11.5);
            for g in [many.closest_point(&q), poly.closest_point(&q), line.closest_point(&q), mpts.closest_point(&q)] {
                o.extend_from_slice(format!("{:?}", g).as_bytes());
            }
            w(&mut o, Euclidean.distance(&many, &sq(400.0, 3.0, 2.0)));
            w(&mut o, Euclidean.distance(&poly, &sq(40.0, 3.0, 2.0)));
            w(&mut o, line.hausdorff_distance(&mpts));
            w(&mut o, line.frechet_distance(&LineString::new(ring.iter().map(|c| Coord { x: c.x + 0.5, y: c.y }).collect())));
        }
        "interior_monotone" => {
            for p in [poly.interior_point(), many.interior_point(), line.interior_point(), mpts.interior_point()].into_iter().flatten() {
                w(&mut o, p.x());
                w(&mut o, p.y());
            }
            for m in geo::algorithm::monotone::monotone_subdivision([poly.clone()]) {
                wpoly(&mut o, &m.into_polygon());
            }
        }
        "sweep" => {
            use geo::algorithm::sweep::Intersections;
            let mut segs: Vec<geo_types::Line<f64>> = (0..n).map(|i| geo_types::Line::new(Coord { x: (i % 9) as f64, y: (i % 7) as f64 }, Coord { x: ((i * 5) % 11) as f64, y: ((i * 3) % 8) as f64 })).filter(|l| l.start != l.end).collect();
            segs.truncate(60);
            segs.push(segs[0]);
            segs.push(segs[3]);
            if let Ok(v) = std::panic::catch_unwind(|| Intersections::from_iter(segs.iter().copied()).collect::<Vec<_>>()) {
                for (a, b, _) in v {
                    w(&mut o, a.start.x);
                    w(&mut o, a.end.y);
                    w(&mut o, b.start.x);
                    w(&mut o, b.end.y);
                }
            } else {
                o.push(0xee);
            }
        }
        "bool_ops" => {
            let a = mp(n.min(24));
            let b = MultiPolygon::new(a.0.iter().map(|p| p.translate(0.3, 0.2)).collect());
            wmp(&mut o, &a.intersection(&b));
            wmp(&mut o, &a.xor(&b));
            wmp(&mut o, &poly.difference(&sq(6.0, 6.0, 5.0)));
            let clipped = poly.clip(&MultiLineString::new(vec![LineString::new(vec![Coord { x: 0.0, y: 9.7 }, Coord { x: 30.0, y: 11.1 }])]), false);
            clipped.0.iter().flat_map(|l| l.0.iter()).for_each(|c| w(&mut o, c.x));
        }
        "unary_union" => {
            let shifted: Vec<Polygon<f64>> = many.0.iter().flat_map(|p| [p.clone(), p.translate(0.31, 0.17)]).collect();
            wmp(&mut o, &geo::algorithm::bool_ops::unary_union(shifted.iter()));
        }
        "rotated_extremes" => {
            if let Some(r) = mpts.minimum_rotated_rect() {
                wpoly(&mut o, &r);
            }
            if let Some(e) = poly.extremes() {
                w(&mut o, e.x_min.coord.x);
                w(&mut o, e.y_max.coord.y);
            }
            o.extend_from_slice(format!("{:?}", poly.coordinate_position(&Coord { x: 10.0, y: 10.0 })).as_bytes());
            o.extend_from_slice(format!("{:?}", many.coordinate_position(&Coord { x: 0.25, y: 0.25 })).as_bytes());
        }
        "geodesic" => {
            use geo::algorithm::line_measures::{Geodesic, Haversine, Rhumb};
            let ll = LineString::new(ring.iter().map(|c| Coord { x: c.x * 3.0 - 30.0, y: c.y * 2.0 - 20.0 }).collect());
            w(&mut o, Haversine.length(&ll));
            w(&mut o, Geodesic.length(&ll));
            w(&mut o, Rhumb.length(&ll));
            let llp = MultiPolygon::new(many.0.iter().map(|p| p.map_coords(|c| Coord { x: c.x * 0.1 - 30.0, y: c.y * 0.1 + 10.0 })).collect());
            w(&mut o, llp.geodesic_area_signed());
            w(&mut o, llp.geodesic_perimeter());
            w(&mut o, llp.chamberlain_duquette_unsigned_area());
        }
        "transforms" => {
            wmp(&mut o, &many.rotate_around_centroid(30.0));
            wmp(&mut o, &many.scale(1.5));
            wmp(&mut o, &many.affine_transform(&AffineTransform::new(1.0, 0.5, 2.0, -0.25, 1.0, 3.0)));
            let mut m2 = many.clone();
            m2.map_coords_in_place(|c| Coord { x: c.y, y: c.x });
            wmp(&mut o, &m2);
            wmp(&mut o, &many.orient(geo::algorithm::orient::Direction::Reversed));
            many.lines_iter().take(500).for_each(|l| w(&mut o, l.start.x));
        }
        "collection" => {
            let gc = geo_types::GeometryCollection::new_from(vec![
                geo_types::Geometry::MultiPolygon(mp(n.min(80))),
                geo_types::Geometry::LineString(line.clone()),
                geo_types::Geometry::MultiPoint(mpts.clone()),
                geo_types::Geometry::Polygon(poly.clone()),
            ]);
            w(&mut o, gc.unsigned_area());
            if let Some(c) = gc.centroid() {
                w(&mut o, c.x());
                w(&mut o, c.y());
            }
            if let Some(r) = gc.bounding_rect() {
                w(&mut o, r.min().x);
                w(&mut o, r.max().y);
            }
            wpoly(&mut o, &gc.convex_hull());
            o.extend_from_slice(format!("{:?}", gc.closest_point(&Point::new(40.0, 2.0))).as_bytes());
            o.extend_from_slice(format!("{:?}{:?}", gc.dimensions(), gc.boundary_dimensions()).as_bytes());
            if let Some(p) = gc.interior_point() {
                w(&mut o, p.x());
            }
        }
        _ => {
            eprintln!("unknown catalogue entry {name}");
            std::process::exit(2);
        }
    }
    o
}

/// A battery of sequential geo algorithms on one caller's input (used by `two_callers`).  Every
/// operation is a separate step so that the callers can be lined up, step by step, with a barrier:
/// both are then inside the SAME library function at the same time, on different inputs of equal
/// size and extent.
fn battery_steps(k: usize, n: usize, mut between: impl FnMut()) -> Vec<u8> {
    use geo::algorithm::{ConcaveHull, InteriorPoint, KNearestConcaveHull, Relate, Simplify, SimplifyIdx, SimplifyVw};
    let mut o = Vec::new();
    let f = |i: usize| ((i * (7 + 2 * k) + 3 * k) % 11) as f64 * 0.5;
    let mut ring: Vec<Coord<f64>> = vec![Coord { x: 0.0, y: 0.0 }, Coord { x: 10.0, y: 0.0 }];
    ring.extend((0..n).map(|i| Coord { x: 10.0 - i as f64 * (10.0 / n as f64), y: 5.0 + f(i) }));
    ring.push(Coord { x: 0.0, y: 10.5 });
    ring.push(Coord { x: 0.0, y: 0.0 });
    let line = LineString::new(ring[1..ring.len() - 1].to_vec());
    let poly = Polygon::new(LineString::new(ring.clone()), vec![]);
    let other = sq(2.0 + k as f64 * 0.25, 1.0, 4.0);
    let pts = MultiPoint::new(ring.iter().map(|c| Point(*c)).collect());
    const REPEAT: usize = 3;
    macro_rules! step {
        ($body:expr) => {{
            between();
            for _ in 0..REPEAT {
                $body;
            }
        }};
    }
    step!(wpoly(&mut o, &poly.convex_hull()));
    step!(wpoly(&mut o, &pts.convex_hull()));
    step!(wpoly(&mut o, &poly.simplify(0.75)));
    step!({
        let l = line.simplify(0.75);
        l.0.iter().for_each(|c| {
            w(&mut o, c.x);
            w(&mut o, c.y)
        });
        line.simplify_idx(0.75).iter().for_each(|x| o.extend_from_slice(&(*x as u64).to_le_bytes()));
    });
    step!(wpoly(&mut o, &poly.simplify_vw(0.75)));
    step!(wpoly(&mut o, &pts.concave_hull(2.0)));
    step!(wpoly(&mut o, &pts.k_nearest_concave_hull(3)));
    step!(if let Some(p) = poly.interior_point() {
        w(&mut o, p.x());
        w(&mut o, p.y());
    });
    step!(if let Some(c) = poly.centroid() {
        w(&mut o, c.x());
        w(&mut o, c.y());
    });
    step!(w(&mut o, poly.unsigned_area()));
    step!(o.extend_from_slice(format!("{:?}", poly.relate(&other)).as_bytes()));
    step!(w(&mut o, geo::algorithm::line_measures::Distance::distance(&geo::algorithm::line_measures::Euclidean, &poly, &sq(20.0 + k as f64, 1.0, 2.0))));
    step!({
        // planar sweep over segments with duplicates and collinear overlaps (ties in the active set)
        use geo::algorithm::sweep::Intersections;
        let mut segs: Vec<geo_types::Line<f64>> = ring.windows(2).map(|w| geo_types::Line::new(w[0], w[1])).collect();
        segs.push(segs[0]);
        segs.push(geo_types::Line::new(Coord { x: 2.0, y: 0.0 }, Coord { x: 8.0, y: 0.0 }));
        segs.push(geo_types::Line::new(Coord { x: 10.0, y: 0.0 }, Coord { x: 0.0, y: 0.0 }));
        for (a, b, _) in Intersections::from_iter(segs.iter().copied()) {
            w(&mut o, a.start.x);
            w(&mut o, a.end.y);
            w(&mut o, b.start.x);
            w(&mut o, b.end.y);
        }
    });
    step!(wmp(&mut o, &poly.intersection(&other)));
    step!(wmp(&mut o, &geo::algorithm::bool_ops::unary_union([&poly, &other])));
    o
}

fn main() {
    let av: Vec<String> = std::env::args().collect();
    if av.get(1).map(|s| s.as_str()) == Some("two_callers") {
        // several USER threads call the library at the same time on different inputs of equal
        // size and extent; every result must equal the one computed alone, before.
        let callers: usize = av.get(2).and_then(|s| s.parse().ok()).unwrap_or(2);
        let n: usize = av.get(3).and_then(|s| s.parse().ok()).unwrap_or(6);
        let alone: Vec<Vec<u8>> = (0..callers).map(|k| battery_steps(k, n, || {})).collect();
        let barrier = std::sync::Barrier::new(callers);
        let barrier = &barrier;
        let together: Vec<Vec<u8>> = std::thread::scope(|s| {
            let hs: Vec<_> = (0..callers)
                .map(|k| {
                    s.spawn(move || {
                        battery_steps(k, n, || {
                            barrier.wait();
                        })
                    })
                })
                .collect();
            hs.into_iter().map(|h| h.join().unwrap()).collect()
        });
        if together != alone {
            let k = (0..callers).find(|&k| together[k] != alone[k]).unwrap();
            println!("DIFFERS scenario=two_callers threads={callers} caller={k} len={}/{}", together[k].len(), alone[k].len());
            std::process::exit(1);
        }
        println!("EQUAL scenario=two_callers threads={callers} len={}", alone[0].len());
        return;
    }
    if av.get(1).map(|s| s.as_str()) == Some("catalogue") {
        let threads: usize = av.get(2).and_then(|s| s.parse().ok()).unwrap_or(3);
        let n: usize = av.get(3).and_then(|s| s.parse().ok()).unwrap_or(96);
        let (first, last) = av.get(4).and_then(|s| s.split_once("..")).map(|(a, b)| (a.parse().unwrap_or(0), b.parse().unwrap_or(CATALOGUE.len()))).unwrap_or((0, CATALOGUE.len()));
        let entries = &CATALOGUE[first.min(CATALOGUE.len())..last.min(CATALOGUE.len())];
        let p1 = rayon::ThreadPoolBuilder::new().num_threads(1).build().unwrap();
        let pn = rayon::ThreadPoolBuilder::new().num_threads(threads).build().unwrap();
        let mut bad = vec![];
        let mut total = 0usize;
        for e in entries {
            let reference = p1.install(|| catalogue_entry(e, n));
            let got = pn.install(|| catalogue_entry(e, n));
            total += got.len();
            if got != reference {
                bad.push(*e);
            }
        }
        if !bad.is_empty() {
            println!("DIFFERS scenario=catalogue threads={threads} n={n} entries={first}..{last} differing={}", bad.join(","));
            std::process::exit(1);
        }
        println!("EQUAL scenario=catalogue threads={threads} n={n} entries={first}..{last} len={total}");
        return;
    }
    let name = av.get(1).map(|s| s.as_str()).unwrap_or("par_iter_multipolygon");
    let threads: usize = av.get(2).and_then(|s| s.parse().ok()).unwrap_or(3);
    let n: usize = av.get(3).and_then(|s| s.parse().ok()).unwrap_or(12);
    let reference = rayon::ThreadPoolBuilder::new().num_threads(1).build().unwrap().install(|| scenario(name, n));
    let got = rayon::ThreadPoolBuilder::new().num_threads(threads).build().unwrap().install(|| scenario(name, n));
    let mut h: u64 = 0xcbf2_9ce4_8422_2325;
    for b in &got {
        h ^= *b as u64;
        h = h.wrapping_mul(0x0000_0100_0000_01B3);
    }
    if got != reference {
        let pos = got.iter().zip(reference.iter()).position(|(a, b)| a != b);
        println!("DIFFERS scenario={name} threads={threads} len={}/{} first_byte={:?} fnv={h:016x}", got.len(), reference.len(), pos);
        std::process::exit(1);
    }
    println!("EQUAL scenario={name} threads={threads} len={} fnv={h:016x}", got.len());
}
