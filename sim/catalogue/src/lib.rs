//! The C20 catalogue (see Cargo.toml for why it is a crate of its own).
pub mod c20_inputs;
pub mod c20_ops;
