//! `simrun`: the simulator binary.  One process executes one shard of seeded runs of one engine,
//! strictly one simulation at a time.

mod c17;
mod c17_run;
mod c18;
mod c18_run;
pub use catalogue::c20_inputs;
pub use catalogue::c20_ops;
mod c20_run;
mod seams;
mod cli;
mod poolcheck;
mod sendprobe;
#[cfg(feature = "atomic-points")]
mod tsanrt;

/// called by the instrumentation runtime before every atomic operation of instrumented code
#[cfg(feature = "atomic-points")]
#[inline]
pub fn atomic_point() {
    rayon_core::sim::preempt_point();
}

#[global_allocator]
static GLOBAL: seams::SimAlloc = seams::SimAlloc;

fn main() {
    let a = cli::parse_args();
    let code = match (a.prop.as_str(), a.mode.as_str()) {
        ("C17", "run") => c17_run::run(&a),
        ("C17", "replay") => c17_run::replay(&a),
        ("C18", "run") => c18_run::run(&a),
        ("C18", "replay") => c18_run::replay(&a),
        ("C20", "run") => c20_run::run(&a),
        ("C20", "replay") => c20_run::replay(&a),
        ("C20", "exec") => c20_run::exec_one(&a),
        ("UTIL", "poolcheck") => poolcheck::run(),
        ("C18", "show") => {
            // debug helper: prints the generated history of run --runs N (VERIF_SEED --seed)
            let s_r = simkit::rng::mix(&[a.seed, simkit::rng::name_hash("C18"), a.runs]);
            println!("{}", serde_json::to_string(&c18::gen_history(s_r)).unwrap());
            0
        }
        ("UTIL", "merge-hashes") => merge_hashes(&a),
        _ => {
            eprintln!("unknown engine/mode {} {}", a.prop, a.mode);
            2
        }
    };
    std::process::exit(code);
}

/// Exact count of distinct 64-bit hashes over all shard files of a property.
fn merge_hashes(a: &cli::Args) -> i32 {
    let prop = a.extra.get("prop").expect("--prop");
    let mut all: Vec<u64> = Vec::new();
    for dir in a.out_dir.split(',') {
        for e in std::fs::read_dir(dir).expect("out dir") {
            let p = e.unwrap().path();
            let name = p.file_name().unwrap().to_string_lossy().to_string();
            if name.starts_with(&format!("{prop}-shard")) && name.ends_with(".hashes") {
                let b = std::fs::read(&p).unwrap();
                all.extend(b.chunks_exact(8).map(|c| u64::from_le_bytes(c.try_into().unwrap())));
            }
        }
    }
    all.sort_unstable();
    all.dedup();
    println!("{}", all.len());
    0
}
