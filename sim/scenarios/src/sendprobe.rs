//! Detects (rather than asserts) whether `PreparedGeometry` is `Send` / `Sync`, by
//! autoref-based specialisation.  Today it holds `Rc`/`RefCell` state and is neither, so there
//! is no thread schedule to explore for C17; if that ever changes the evidence says so.

#![allow(dead_code)]
use geo::PreparedGeometry;
use geo_types::Polygon;
use std::marker::PhantomData;

struct Probe<T>(PhantomData<T>);

trait NotSend {
    fn is_send(&self) -> bool {
        false
    }
}
impl<T> NotSend for &Probe<T> {}
trait IsSend {
    fn is_send(&self) -> bool {
        true
    }
}
impl<T: Send> IsSend for Probe<T> {}

trait NotSync {
    fn is_sync(&self) -> bool {
        false
    }
}
impl<T> NotSync for &Probe<T> {}
trait IsSync {
    fn is_sync(&self) -> bool {
        true
    }
}
impl<T: Sync> IsSync for Probe<T> {}

type P = PreparedGeometry<'static, Polygon<f64>, f64>;

pub fn prepared_is_send() -> bool {
    (&Probe::<P>(PhantomData)).is_send()
}
pub fn prepared_is_sync() -> bool {
    (&Probe::<P>(PhantomData)).is_sync()
}
