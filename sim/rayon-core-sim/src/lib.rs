//! Drop-in replacement for `rayon-core` 1.13.0 used by the deterministic simulator: the public
//! API that `rayon` 1.12 builds on, with the thread pool replaced by a simulated one whose every
//! scheduling decision is taken by a seeded (or replayed) scheduler — see `sim::run`.
//!
//! Outside of `sim::run` (no simulation active) every entry point degrades to plain sequential
//! inline execution, which is one legal schedule of the real pool.
//!
//! Not modelled (geo and its dependencies do not use them): sleep/wake heuristics,
//! `breadth_first`, custom spawn handlers, per-scope FIFO ordering (`ScopeFifo` behaves like
//! `Scope`), `broadcast` runs its closure once per simulated worker index on the calling thread.

#![allow(clippy::type_complexity)]

mod sched;

use sched::{HeapJob, PushKind, StackJob};
use std::any::Any;
use std::fmt;
use std::marker::PhantomData;
use std::panic::{catch_unwind, resume_unwind, AssertUnwindSafe};
use std::sync::atomic::{AtomicBool, AtomicUsize, Ordering};
use std::sync::Mutex;

/// Control surface of the simulator.
pub mod sim {
    pub use crate::sched::{blocked_point, is_baton_holder, owns_address, preempt_point, run, run_multi, Config, Decision, Report, Stats, Strategy, MAX_WORKERS};
    /// true while the calling thread is a simulated thread of an active simulation
    pub fn in_simulation() -> bool {
        crate::sched::current_tid().is_some()
    }
}

// ---------------------------------------------------------------------------------------------
// FnContext, join
// ---------------------------------------------------------------------------------------------

/// Provides context to a closure called by `join_context`.
#[derive(Debug)]
pub struct FnContext {
    migrated: bool,
    _marker: PhantomData<*mut ()>,
}

impl FnContext {
    #[inline]
    fn new(migrated: bool) -> Self {
        FnContext { migrated, _marker: PhantomData }
    }
    /// Returns `true` if the closure was called from a different thread than it was provided from.
    #[inline]
    pub fn migrated(&self) -> bool {
        self.migrated
    }
}

pub fn join<A, B, RA, RB>(oper_a: A, oper_b: B) -> (RA, RB)
where
    A: FnOnce() -> RA + Send,
    B: FnOnce() -> RB + Send,
    RA: Send,
    RB: Send,
{
    join_context(move |_| oper_a(), move |_| oper_b())
}

pub fn join_context<A, B, RA, RB>(oper_a: A, oper_b: B) -> (RA, RB)
where
    A: FnOnce(FnContext) -> RA + Send,
    B: FnOnce(FnContext) -> RB + Send,
    RA: Send,
    RB: Send,
{
    in_worker(move |me, injected| match me {
        None => {
            // no simulation: sequential inline execution
            let ra = oper_a(FnContext::new(false));
            let rb = oper_b(FnContext::new(false));
            (ra, rb)
        }
        Some(me) => unsafe {
            let job_b = StackJob::new(move |migrated| oper_b(FnContext::new(migrated)));
            let jref = job_b.as_job_ref();
            let id = jref.id;
            sched::push_and_point(me, jref, PushKind::Join);
            let ra = match catch_unwind(AssertUnwindSafe(move || oper_a(FnContext::new(injected)))) {
                Ok(v) => v,
                Err(e) => {
                    // join_recover_from_panic: b must finish before the frame dies
                    sched::wait_until(me, &job_b.latch);
                    resume_unwind(e)
                }
            };
            while !job_b.latch.load(Ordering::SeqCst) {
                match sched::pop_local(me) {
                    Some(j) if j.id == id => {
                        sched::note_inline_b();
                        let rb = job_b.run_inline(injected);
                        return (ra, rb);
                    }
                    Some(j) => j.execute(),
                    None => {
                        sched::wait_until(me, &job_b.latch);
                        break;
                    }
                }
            }
            (ra, job_b.into_result())
        },
    })
}

/// Runs `op` on a worker: inline if the caller is one, otherwise injected into the pool while
/// the caller blocks (`Registry::in_worker_cold`).  `op(None, false)` means "no simulation".
fn in_worker<OP, R>(op: OP) -> R
where
    OP: FnOnce(Option<usize>, bool) -> R + Send,
    R: Send,
{
    match sched::current_tid() {
        None => op(None, false),
        Some(t) if t < sched::MAX_WORKERS => op(Some(t), false),
        Some(ext) => unsafe {
            let job = StackJob::new(move |injected: bool| {
                let w = sched::current_worker().expect("injected job runs on a worker");
                debug_assert!(injected);
                op(Some(w), true)
            });
            let jref = job.as_job_ref();
            sched::inject_and_wait(ext, jref, &job.latch);
            job.into_result()
        },
    }
}

// ---------------------------------------------------------------------------------------------
// scope
// ---------------------------------------------------------------------------------------------

struct ScopeBase {
    pending: AtomicUsize,
    done: AtomicBool,
    panic: Mutex<Option<Box<dyn Any + Send + 'static>>>,
}

impl ScopeBase {
    fn new() -> Self {
        ScopeBase { pending: AtomicUsize::new(1), done: AtomicBool::new(false), panic: Mutex::new(None) }
    }
    fn job_completed(&self) {
        if self.pending.fetch_sub(1, Ordering::SeqCst) == 1 {
            self.done.store(true, Ordering::SeqCst);
        }
    }
    fn job_panicked(&self, e: Box<dyn Any + Send + 'static>) {
        let mut g = self.panic.lock().unwrap_or_else(|p| p.into_inner());
        if g.is_none() {
            *g = Some(e);
        }
    }
    fn complete<R>(&self, f: impl FnOnce() -> R) -> R {
        let r = match catch_unwind(AssertUnwindSafe(f)) {
            Ok(r) => Some(r),
            Err(e) => {
                self.job_panicked(e);
                None
            }
        };
        self.job_completed();
        match sched::current_tid() {
            None => {}
            Some(t) if t < sched::MAX_WORKERS => sched::wait_until(t, &self.done),
            Some(ext) => sched::wait_external(ext, &self.done),
        }
        debug_assert!(self.done.load(Ordering::SeqCst));
        if let Some(e) = self.panic.lock().unwrap_or_else(|p| p.into_inner()).take() {
            resume_unwind(e);
        }
        r.unwrap()
    }
    /// Queues `f` (lifetime erased: the scope outlives its jobs because `complete` waits).
    unsafe fn spawn_erased<'s>(&self, f: Box<dyn FnOnce() + Send + 's>) {
        let f: Box<dyn FnOnce() + Send + 'static> = std::mem::transmute(f);
        match sched::current_tid() {
            None => f(),
            Some(t) => {
                let job = HeapJob::new(f).into_job_ref();
                if t >= sched::MAX_WORKERS {
                    sched::ensure_workers();
                }
                sched::push_and_point(t, job, PushKind::ScopeSpawn);
            }
        }
    }
}

struct ScopePtr<T>(*const T);
unsafe impl<T: Sync> Send for ScopePtr<T> {}
unsafe impl<T: Sync> Sync for ScopePtr<T> {}

macro_rules! scope_type {
    ($name:ident, $spawn:ident) => {
        pub struct $name<'scope> {
            base: ScopeBase,
            marker: PhantomData<Box<dyn FnOnce(&$name<'scope>) + Send + Sync + 'scope>>,
        }
        impl<'scope> $name<'scope> {
            fn new() -> Self {
                $name { base: ScopeBase::new(), marker: PhantomData }
            }
            pub fn $spawn<BODY>(&self, body: BODY)
            where
                BODY: FnOnce(&$name<'scope>) + Send + 'scope,
            {
                self.base.pending.fetch_add(1, Ordering::SeqCst);
                let ptr = ScopePtr(self as *const Self);
                let f = move || {
                    let ptr = ptr;
                    let scope: &$name<'scope> = unsafe { &*ptr.0 };
                    if let Err(e) = catch_unwind(AssertUnwindSafe(|| body(scope))) {
                        scope.base.job_panicked(e);
                    }
                    scope.base.job_completed();
                };
                unsafe { self.base.spawn_erased(Box::new(f)) }
            }
            pub fn spawn_broadcast<BODY>(&self, body: BODY)
            where
                BODY: Fn(&$name<'scope>, BroadcastContext<'_>) + Send + Sync + 'scope,
            {
                let n = current_num_threads();
                for index in 0..n {
                    body(self, BroadcastContext { index, num: n, _marker: PhantomData });
                }
            }
        }
        impl<'scope> fmt::Debug for $name<'scope> {
            fn fmt(&self, fmt: &mut fmt::Formatter<'_>) -> fmt::Result {
                fmt.debug_struct(stringify!($name)).field("pending", &self.base.pending.load(Ordering::SeqCst)).finish()
            }
        }
    };
}
scope_type!(Scope, spawn);
scope_type!(ScopeFifo, spawn_fifo);

pub fn scope<'scope, OP, R>(op: OP) -> R
where
    OP: FnOnce(&Scope<'scope>) -> R + Send,
    R: Send,
{
    in_worker(move |_, _| {
        let scope = Scope::<'scope>::new();
        scope.base.complete(|| op(&scope))
    })
}

pub fn scope_fifo<'scope, OP, R>(op: OP) -> R
where
    OP: FnOnce(&ScopeFifo<'scope>) -> R + Send,
    R: Send,
{
    in_worker(move |_, _| {
        let scope = ScopeFifo::<'scope>::new();
        scope.base.complete(|| op(&scope))
    })
}

pub fn in_place_scope<'scope, OP, R>(op: OP) -> R
where
    OP: FnOnce(&Scope<'scope>) -> R,
{
    let scope = Scope::<'scope>::new();
    scope.base.complete(|| op(&scope))
}

pub fn in_place_scope_fifo<'scope, OP, R>(op: OP) -> R
where
    OP: FnOnce(&ScopeFifo<'scope>) -> R,
{
    let scope = ScopeFifo::<'scope>::new();
    scope.base.complete(|| op(&scope))
}

// ---------------------------------------------------------------------------------------------
// spawn, broadcast
// ---------------------------------------------------------------------------------------------

pub fn spawn<F>(func: F)
where
    F: FnOnce() + Send + 'static,
{
    match sched::current_tid() {
        None => func(),
        Some(t) => {
            let job = HeapJob::new(Box::new(move || {
                // the real pool aborts on a panic in a detached job; here it is swallowed and
                // the run goes on (the outcome comparison sees whatever the job did not do)
                let _ = catch_unwind(AssertUnwindSafe(func));
            }))
            .into_job_ref();
            if t >= sched::MAX_WORKERS {
                sched::ensure_workers();
            }
            sched::push_and_point(t, job, PushKind::Detached);
        }
    }
}

pub fn spawn_fifo<F>(func: F)
where
    F: FnOnce() + Send + 'static,
{
    spawn(func)
}

pub struct BroadcastContext<'a> {
    index: usize,
    num: usize,
    _marker: PhantomData<&'a mut dyn Fn()>,
}

impl<'a> BroadcastContext<'a> {
    #[inline]
    pub fn index(&self) -> usize {
        self.index
    }
    #[inline]
    pub fn num_threads(&self) -> usize {
        self.num
    }
}

impl<'a> fmt::Debug for BroadcastContext<'a> {
    fn fmt(&self, fmt: &mut fmt::Formatter<'_>) -> fmt::Result {
        fmt.debug_struct("BroadcastContext").field("index", &self.index).field("num_threads", &self.num).finish()
    }
}

pub fn broadcast<OP, R>(op: OP) -> Vec<R>
where
    OP: Fn(BroadcastContext<'_>) -> R + Sync,
    R: Send,
{
    let n = current_num_threads();
    (0..n).map(|index| op(BroadcastContext { index, num: n, _marker: PhantomData })).collect()
}

pub fn spawn_broadcast<OP>(op: OP)
where
    OP: Fn(BroadcastContext<'_>) + Send + Sync + 'static,
{
    let n = current_num_threads();
    for index in 0..n {
        op(BroadcastContext { index, num: n, _marker: PhantomData });
    }
}

// ---------------------------------------------------------------------------------------------
// pool introspection
// ---------------------------------------------------------------------------------------------

pub fn max_num_threads() -> usize {
    sched::MAX_WORKERS
}

pub fn current_num_threads() -> usize {
    sched::num_workers().unwrap_or(1)
}

pub fn current_thread_index() -> Option<usize> {
    sched::current_worker()
}

pub fn current_thread_has_pending_tasks() -> Option<bool> {
    sched::current_worker().map(|_| false)
}

#[derive(Clone, Copy, Debug, PartialEq, Eq)]
pub enum Yield {
    Executed,
    Idle,
}

pub fn yield_now() -> Option<Yield> {
    sched::current_worker().map(|_| Yield::Idle)
}

pub fn yield_local() -> Option<Yield> {
    sched::current_worker().map(|_| Yield::Idle)
}

// ---------------------------------------------------------------------------------------------
// ThreadPool / ThreadPoolBuilder (one simulated pool per run; handles are views of it)
// ---------------------------------------------------------------------------------------------

#[derive(Debug)]
pub struct ThreadPoolBuildError {
    msg: &'static str,
}

impl fmt::Display for ThreadPoolBuildError {
    fn fmt(&self, f: &mut fmt::Formatter<'_>) -> fmt::Result {
        f.write_str(self.msg)
    }
}
impl std::error::Error for ThreadPoolBuildError {}

/// Thread builder handed to custom spawn handlers (not supported by the simulated pool).
pub struct ThreadBuilder {
    index: usize,
}
impl ThreadBuilder {
    pub fn index(&self) -> usize {
        self.index
    }
    pub fn name(&self) -> Option<&str> {
        None
    }
    pub fn stack_size(&self) -> Option<usize> {
        None
    }
    pub fn run(self) {}
}
impl fmt::Debug for ThreadBuilder {
    fn fmt(&self, f: &mut fmt::Formatter<'_>) -> fmt::Result {
        f.debug_struct("ThreadBuilder").field("index", &self.index).finish()
    }
}

#[derive(Default)]
pub struct ThreadPoolBuilder {
    num_threads: usize,
}

impl fmt::Debug for ThreadPoolBuilder {
    fn fmt(&self, f: &mut fmt::Formatter<'_>) -> fmt::Result {
        f.debug_struct("ThreadPoolBuilder").field("num_threads", &self.num_threads).finish()
    }
}

impl ThreadPoolBuilder {
    pub fn new() -> Self {
        Self::default()
    }
    pub fn build(self) -> Result<ThreadPool, ThreadPoolBuildError> {
        Ok(ThreadPool { _n: self.num_threads })
    }
    pub fn build_global(self) -> Result<(), ThreadPoolBuildError> {
        Ok(())
    }
    pub fn num_threads(mut self, num_threads: usize) -> Self {
        self.num_threads = num_threads;
        self
    }
    pub fn thread_name<F>(self, _closure: F) -> Self
    where
        F: FnMut(usize) -> String + 'static,
    {
        self
    }
    pub fn use_current_thread(self) -> Self {
        self
    }
    pub fn panic_handler<H>(self, _h: H) -> Self
    where
        H: Fn(Box<dyn Any + Send>) + Send + Sync + 'static,
    {
        self
    }
    pub fn stack_size(self, _stack_size: usize) -> Self {
        self
    }
    pub fn start_handler<H>(self, _h: H) -> Self
    where
        H: Fn(usize) + Send + Sync + 'static,
    {
        self
    }
    pub fn exit_handler<H>(self, _h: H) -> Self
    where
        H: Fn(usize) + Send + Sync + 'static,
    {
        self
    }
}

/// A handle onto the run's single simulated pool.
pub struct ThreadPool {
    _n: usize,
}

impl fmt::Debug for ThreadPool {
    fn fmt(&self, f: &mut fmt::Formatter<'_>) -> fmt::Result {
        f.debug_struct("ThreadPool").field("num_threads", &self.current_num_threads()).finish()
    }
}

impl ThreadPool {
    pub fn install<OP, R>(&self, op: OP) -> R
    where
        OP: FnOnce() -> R + Send,
        R: Send,
    {
        in_worker(move |_, _| op())
    }
    pub fn broadcast<OP, R>(&self, op: OP) -> Vec<R>
    where
        OP: Fn(BroadcastContext<'_>) -> R + Sync,
        R: Send,
    {
        broadcast(op)
    }
    pub fn current_num_threads(&self) -> usize {
        current_num_threads()
    }
    pub fn current_thread_index(&self) -> Option<usize> {
        current_thread_index()
    }
    pub fn current_thread_has_pending_tasks(&self) -> Option<bool> {
        current_thread_has_pending_tasks()
    }
    pub fn join<A, B, RA, RB>(&self, oper_a: A, oper_b: B) -> (RA, RB)
    where
        A: FnOnce() -> RA + Send,
        B: FnOnce() -> RB + Send,
        RA: Send,
        RB: Send,
    {
        self.install(|| join(oper_a, oper_b))
    }
    pub fn scope<'scope, OP, R>(&self, op: OP) -> R
    where
        OP: FnOnce(&Scope<'scope>) -> R + Send,
        R: Send,
    {
        self.install(|| scope(op))
    }
    pub fn scope_fifo<'scope, OP, R>(&self, op: OP) -> R
    where
        OP: FnOnce(&ScopeFifo<'scope>) -> R + Send,
        R: Send,
    {
        self.install(|| scope_fifo(op))
    }
    pub fn in_place_scope<'scope, OP, R>(&self, op: OP) -> R
    where
        OP: FnOnce(&Scope<'scope>) -> R,
    {
        in_place_scope(op)
    }
    pub fn in_place_scope_fifo<'scope, OP, R>(&self, op: OP) -> R
    where
        OP: FnOnce(&ScopeFifo<'scope>) -> R,
    {
        in_place_scope_fifo(op)
    }
    pub fn spawn<OP>(&self, op: OP)
    where
        OP: FnOnce() + Send + 'static,
    {
        spawn(op)
    }
    pub fn spawn_fifo<OP>(&self, op: OP)
    where
        OP: FnOnce() + Send + 'static,
    {
        spawn_fifo(op)
    }
    pub fn spawn_broadcast<OP>(&self, op: OP)
    where
        OP: Fn(BroadcastContext<'_>) + Send + Sync + 'static,
    {
        spawn_broadcast(op)
    }
    pub fn yield_now(&self) -> Option<Yield> {
        yield_now()
    }
    pub fn yield_local(&self) -> Option<Yield> {
        yield_local()
    }
}
