//! SplitMix64-seeded xoshiro256** with *named* sub-streams, so that adding a draw to one
//! concern (say, the workload) never shifts another (say, the schedule).

#[derive(Clone, Debug)]
pub struct Rng {
    s: [u64; 4],
}

#[inline]
pub fn splitmix(x: &mut u64) -> u64 {
    *x = x.wrapping_add(0x9E37_79B9_7F4A_7C15);
    let mut z = *x;
    z = (z ^ (z >> 30)).wrapping_mul(0xBF58_476D_1CE4_E5B9);
    z = (z ^ (z >> 27)).wrapping_mul(0x94D0_49BB_1331_11EB);
    z ^ (z >> 31)
}

/// Mixes several integers into one seed (order sensitive).
pub fn mix(parts: &[u64]) -> u64 {
    let mut h: u64 = 0x243F_6A88_85A3_08D3;
    for &p in parts {
        h ^= p.wrapping_add(0x9E37_79B9_7F4A_7C15).wrapping_add(h << 6).wrapping_add(h >> 2);
        let mut t = h;
        h = splitmix(&mut t);
    }
    h
}

pub fn name_hash(name: &str) -> u64 {
    let mut h: u64 = 0xcbf2_9ce4_8422_2325;
    for b in name.bytes() {
        h ^= b as u64;
        h = h.wrapping_mul(0x0000_0100_0000_01B3);
    }
    h
}

impl Rng {
    pub fn new(seed: u64) -> Rng {
        let mut x = seed;
        let s = [splitmix(&mut x), splitmix(&mut x), splitmix(&mut x), splitmix(&mut x)];
        Rng { s }
    }
    /// Independent stream derived from a seed and a name.
    pub fn stream(seed: u64, name: &str) -> Rng {
        Rng::new(mix(&[seed, name_hash(name)]))
    }
    #[inline]
    pub fn next_u64(&mut self) -> u64 {
        let r = self.s[1].wrapping_mul(5).rotate_left(7).wrapping_mul(9);
        let t = self.s[1] << 17;
        self.s[2] ^= self.s[0];
        self.s[3] ^= self.s[1];
        self.s[1] ^= self.s[2];
        self.s[0] ^= self.s[3];
        self.s[2] ^= t;
        self.s[3] = self.s[3].rotate_left(45);
        r
    }
    /// Uniform in 0..n (n > 0).  Plain modulo of 64 bits: the bias is < 2^-40 for every n used.
    #[inline]
    pub fn below(&mut self, n: usize) -> usize {
        debug_assert!(n > 0);
        (self.next_u64() % (n as u64)) as usize
    }
    /// Uniform in lo..=hi.
    #[inline]
    pub fn range(&mut self, lo: i64, hi: i64) -> i64 {
        debug_assert!(lo <= hi);
        lo + (self.next_u64() % ((hi - lo + 1) as u64)) as i64
    }
    #[inline]
    pub fn chance(&mut self, num: u32, den: u32) -> bool {
        (self.next_u64() % den as u64) < num as u64
    }
    /// Uniform double in [0,1) with a full 53-bit mantissa.
    #[inline]
    pub fn unit(&mut self) -> f64 {
        (self.next_u64() >> 11) as f64 * (1.0 / (1u64 << 53) as f64)
    }
    pub fn pick<'a, T>(&mut self, xs: &'a [T]) -> &'a T {
        &xs[self.below(xs.len())]
    }
    pub fn shuffle<T>(&mut self, xs: &mut [T]) {
        for i in (1..xs.len()).rev() {
            let j = self.below(i + 1);
            xs.swap(i, j);
        }
    }
    pub fn fill(&mut self, buf: &mut [u8]) {
        for ch in buf.chunks_mut(8) {
            let v = self.next_u64().to_le_bytes();
            ch.copy_from_slice(&v[..ch.len()]);
        }
    }
}
