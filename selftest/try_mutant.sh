#!/bin/bash
# usage: try_mutant.sh <worktree> <property> <demo-package> <seeded-id>
# Confirms a property-breaking change produced in a scratch worktree (tests unchanged, demo fails
# with it and passes without it), then applies it to /repo, runs the quick check, and undoes it.
set -u
WT=$1; PROP=$2; PKG=$3; ID=$4
cd $WT || exit 2
git apply --check -R patch.diff 2>/dev/null || git apply patch.diff || { echo "cannot apply patch"; exit 2; }
echo "== with the change"
cargo test -p geo --lib --offline 2>&1 | grep -E "^test result" | sed 's/^/geo lib: /'
cargo test -p geo-types --lib --offline 2>&1 | grep -E "^test result" | sed 's/^/geo-types lib: /'
cargo test -p jts-test-runner --offline 2>&1 | grep -E "^test result" | head -2 | sed 's/^/jts: /'
cargo test -p $PKG --test demo_break --offline 2>&1 | grep -E "^test result" | sed 's/^/demo WITH change: /'
git apply -R patch.diff
echo "== without the change"
cargo test -p $PKG --test demo_break --offline 2>&1 | grep -E "^test result" | sed 's/^/demo WITHOUT change: /'
git apply patch.diff
echo "== /verif check against the change"
cd /verif
git -C /repo apply $WT/patch.diff || { echo "patch does not apply to /repo"; exit 2; }
rm -f replays/${PROP}-*.json
./check $PROP --tier quick > /tmp/try_mutant.out 2>&1
echo "check exit=$?"
tail -12 /tmp/try_mutant.out
git -C /repo checkout -- . && git -C /repo clean -fdq -- geo geo-types
git -C /repo status --short | head -3
mkdir -p seeded/$ID
cp $WT/patch.diff seeded/$ID/patch.diff
cp $WT/demo.rs seeded/$ID/demo.rs 2>/dev/null
cp $WT/REPORT.md seeded/$ID/agent_report.md 2>/dev/null
