//! Process-level seams of the `sched` engine.
//!
//! S2  hash keys: the libc symbol `getrandom` is defined here, so every `RandomState` in geo and
//!     in every dependency draws its per-thread keys from a stream the simulator seeds.
//! S3  heap address order: a global allocator that serves the small blocks (<= 512 bytes) of
//!     *simulated threads* from a private arena, in an address order chosen by a seeded stream,
//!     so that the relative address order of equal-sized allocations — the only thing an address
//!     comparison can observe — is a replayable decision.  The arena range of a run is recycled
//!     by the next run iff nothing allocated in it is still live, so a run's addresses are a pure
//!     function of its allocation sequence and its seed, in any process.
//! S5  clocks: the libc symbol `clock_gettime` is defined here; simulated threads read a seeded
//!     simulated clock (rate, skew, jumps) during a run.
//! S8  stack placement: simulated threads run on stacks at addresses the simulator decides.
//! S6  machine size: the libc symbol `sched_getaffinity` is defined here; simulated threads see a
//!     seeded number of CPUs during a run.

use std::alloc::{GlobalAlloc, Layout, System};
use std::cell::Cell;
use std::sync::atomic::{AtomicBool, AtomicU64, AtomicUsize, Ordering};

// ---------------------------------------------------------------------------------------------
// S2: getrandom
// ---------------------------------------------------------------------------------------------

static HASH_STATE: AtomicU64 = AtomicU64::new(0x1234_5678_9abc_def0);
static HASH_DRAWS: AtomicU64 = AtomicU64::new(0);
static HASH_BYTES: AtomicU64 = AtomicU64::new(0);

pub fn set_hash_seed(seed: u64) {
    HASH_STATE.store(seed, Ordering::SeqCst);
    HASH_DRAWS.store(0, Ordering::SeqCst);
    HASH_BYTES.store(0, Ordering::SeqCst);
}
/// number of `getrandom` calls since the last `set_hash_seed` (= threads that created a randomly
/// keyed map, for std's per-thread key cache)
pub fn hash_draws() -> u64 {
    HASH_DRAWS.load(Ordering::SeqCst)
}

fn next_hash_word() -> u64 {
    let x = HASH_STATE.fetch_add(0x9E37_79B9_7F4A_7C15, Ordering::SeqCst).wrapping_add(0x9E37_79B9_7F4A_7C15);
    let mut z = x;
    z = (z ^ (z >> 30)).wrapping_mul(0xBF58_476D_1CE4_E5B9);
    z = (z ^ (z >> 27)).wrapping_mul(0x94D0_49BB_1331_11EB);
    z ^ (z >> 31)
}

/// Interposes libc's `getrandom(2)` wrapper for the whole process.
///
/// # Safety
/// `buf` must be valid for `len` bytes (the libc contract).
#[no_mangle]
pub unsafe extern "C" fn getrandom(buf: *mut libc::c_void, len: libc::size_t, _flags: libc::c_uint) -> libc::ssize_t {
    HASH_DRAWS.fetch_add(1, Ordering::SeqCst);
    HASH_BYTES.fetch_add(len as u64, Ordering::SeqCst);
    let p = buf as *mut u8;
    let mut i = 0;
    while i < len {
        let w = next_hash_word().to_le_bytes();
        let n = (len - i).min(8);
        std::ptr::copy_nonoverlapping(w.as_ptr(), p.add(i), n);
        i += n;
    }
    len as libc::ssize_t
}

// ---------------------------------------------------------------------------------------------
// S5: clocks, S6: machine size
// ---------------------------------------------------------------------------------------------
//
// geo reads no clock and never asks for the number of CPUs today (probes `clock_reads` and
// `cpu_count_queries` stay at zero on the unchanged tree), but "a function of the input alone"
// excludes both, and a time budget or an `available_parallelism()`-sized chunking is exactly the
// kind of change that would break it.  So both are behind seams: the libc symbols
// `clock_gettime` and `sched_getaffinity` are defined here.  On *simulated threads during a run*
// they answer from a simulated clock (start, rate, skew and jumps drawn from the run's clock
// seed; the reference is a clock that advances 1 ns per reading) and with a simulated CPU count;
// everywhere else (harness, watchdogs, the pool stub's own threads before user code) they
// forward to the kernel by raw syscall, so wall-clock budgets of the harness are unaffected.

static ENV_ON: AtomicBool = AtomicBool::new(false);
static CLOCK_SEED: AtomicU64 = AtomicU64::new(0);
static CLOCK_RNG: AtomicU64 = AtomicU64::new(0);
static CLOCK_MONO: AtomicU64 = AtomicU64::new(0);
static CLOCK_REAL_OFF: AtomicU64 = AtomicU64::new(0);
static CLOCK_REAL_BACK: AtomicU64 = AtomicU64::new(0);
static CLOCK_READS: AtomicU64 = AtomicU64::new(0);
static CLOCK_JUMPS: AtomicU64 = AtomicU64::new(0);
static CPUS: AtomicUsize = AtomicUsize::new(1);
static CPU_QUERIES: AtomicU64 = AtomicU64::new(0);

fn splitmix(x: u64) -> u64 {
    let mut z = x.wrapping_add(0x9E37_79B9_7F4A_7C15);
    z = (z ^ (z >> 30)).wrapping_mul(0xBF58_476D_1CE4_E5B9);
    z = (z ^ (z >> 27)).wrapping_mul(0x94D0_49BB_1331_11EB);
    z ^ (z >> 31)
}

/// Starts the simulated environment of a run.  `clock_seed == 0` is the reference clock (starts
/// at 1 s, +1 ns per reading, wall clock = 2001-09-09); otherwise the seed picks the start, the
/// kind (slow machine: 1-20 ms per reading; jumpy: ~100 ns per reading with 1-100 s jumps on one
/// reading in eight and a wall clock that may step backwards; coarse: the value changes on
/// every 64th reading only) and every step.  `cpus == 0` is the reference machine (1 CPU).
pub fn begin_env(clock_seed: u64, cpus: usize) {
    CLOCK_SEED.store(clock_seed, Ordering::SeqCst);
    CLOCK_RNG.store(splitmix(clock_seed ^ 0xc10c), Ordering::SeqCst);
    let (mono, real_off) = if clock_seed == 0 {
        (1_000_000_000u64, 1_000_000_000u64 * 1_000_000_000 - 1_000_000_000)
    } else {
        // up to ~400 days of uptime, wall clock anywhere in 2017..2049
        (splitmix(clock_seed ^ 1) % (400 * 86_400 * 1_000_000_000), (1_500_000_000 + splitmix(clock_seed ^ 2) % 1_000_000_000) * 1_000_000_000)
    };
    CLOCK_MONO.store(mono, Ordering::SeqCst);
    CLOCK_REAL_OFF.store(real_off, Ordering::SeqCst);
    CLOCK_REAL_BACK.store(0, Ordering::SeqCst);
    CLOCK_READS.store(0, Ordering::SeqCst);
    CLOCK_JUMPS.store(0, Ordering::SeqCst);
    CPUS.store(cpus.max(1), Ordering::SeqCst);
    CPU_QUERIES.store(0, Ordering::SeqCst);
    ENV_ON.store(true, Ordering::SeqCst);
}

pub fn end_env() {
    ENV_ON.store(false, Ordering::SeqCst);
}

#[derive(Clone, Copy, Debug, Default)]
pub struct EnvStats {
    pub clock_reads: u64,
    pub clock_jumps: u64,
    pub cpu_queries: u64,
}
pub fn env_stats() -> EnvStats {
    EnvStats { clock_reads: CLOCK_READS.load(Ordering::SeqCst), clock_jumps: CLOCK_JUMPS.load(Ordering::SeqCst), cpu_queries: CPU_QUERIES.load(Ordering::SeqCst) }
}

fn env_applies() -> bool {
    ENV_ON.load(Ordering::Relaxed) && SIM_THREAD.with(|c| c.get())
}

/// one reading of the simulated clocks: (monotonic ns, wall-clock ns)
fn sim_clock_read() -> (u64, u64) {
    // only one simulated thread runs at a time (baton), so this sequence is a function of the run
    let n = CLOCK_READS.fetch_add(1, Ordering::SeqCst);
    let seed = CLOCK_SEED.load(Ordering::SeqCst);
    let step = if seed == 0 {
        1
    } else {
        let r = splitmix(CLOCK_RNG.fetch_add(0x9E37_79B9_7F4A_7C15, Ordering::SeqCst));
        match seed % 3 {
            0 => 1_000_000 + r % 19_000_000,
            1 => {
                if r % 8 == 0 {
                    CLOCK_JUMPS.fetch_add(1, Ordering::SeqCst);
                    if (r >> 8) % 4 == 0 {
                        // the wall clock is stepped back (NTP) while the monotonic one jumps on
                        CLOCK_REAL_BACK.fetch_add(1_000_000_000 + (r >> 16) % 3_600_000_000_000, Ordering::SeqCst);
                    }
                    1_000_000_000 + (r >> 16) % 99_000_000_000
                } else {
                    50 + r % 200
                }
            }
            _ => {
                if n % 64 == 63 {
                    4_000_000
                } else {
                    0
                }
            }
        }
    };
    let mono = CLOCK_MONO.fetch_add(step, Ordering::SeqCst) + step;
    let real = (mono + CLOCK_REAL_OFF.load(Ordering::SeqCst)).saturating_sub(CLOCK_REAL_BACK.load(Ordering::SeqCst));
    (mono, real)
}

/// Interposes libc's `clock_gettime` for the whole process (what `Instant::now` and
/// `SystemTime::now` call).
///
/// # Safety
/// `ts` must be valid for one `timespec` (the libc contract).
#[no_mangle]
pub unsafe extern "C" fn clock_gettime(clk: libc::clockid_t, ts: *mut libc::timespec) -> libc::c_int {
    if !env_applies() {
        let r = libc::syscall(libc::SYS_clock_gettime, clk as libc::c_long, ts);
        return r as libc::c_int;
    }
    let (mono, real) = sim_clock_read();
    let v = match clk {
        libc::CLOCK_REALTIME | libc::CLOCK_REALTIME_COARSE | libc::CLOCK_TAI => real,
        // CPU-time clocks: a fraction of the monotonic one
        libc::CLOCK_PROCESS_CPUTIME_ID | libc::CLOCK_THREAD_CPUTIME_ID => mono / 2,
        _ => mono,
    };
    (*ts).tv_sec = (v / 1_000_000_000) as libc::time_t;
    (*ts).tv_nsec = (v % 1_000_000_000) as libc::c_long;
    0
}

/// Interposes libc's `sched_getaffinity` (what `std::thread::available_parallelism` and the
/// `num_cpus` crate count on Linux).
///
/// # Safety
/// `mask` must be valid for `size` bytes (the libc contract).
#[no_mangle]
pub unsafe extern "C" fn sched_getaffinity(pid: libc::pid_t, size: libc::size_t, mask: *mut libc::cpu_set_t) -> libc::c_int {
    if !env_applies() {
        let r = libc::syscall(libc::SYS_sched_getaffinity, pid as libc::c_long, size, mask);
        if r < 0 {
            return -1;
        }
        // the raw call returns the number of bytes it wrote; the wrapper clears the rest
        let wrote = r as usize;
        if wrote < size {
            std::ptr::write_bytes((mask as *mut u8).add(wrote), 0, size - wrote);
        }
        return 0;
    }
    CPU_QUERIES.fetch_add(1, Ordering::SeqCst);
    std::ptr::write_bytes(mask as *mut u8, 0, size);
    let n = CPUS.load(Ordering::SeqCst).min(size * 8);
    let p = mask as *mut u8;
    for i in 0..n {
        *p.add(i / 8) |= 1 << (i % 8);
    }
    0
}

// ---------------------------------------------------------------------------------------------
// S9: environment variables and the process id
// ---------------------------------------------------------------------------------------------
//
// geo reads no environment variable and never asks for its process id (probes `env_var_reads`
// and `pid_reads` are 0 on the unchanged tree).  A change that sizes its chunks by
// `RAYON_NUM_THREADS`, switches a code path on a `GEO_*` variable or seeds something with the
// pid would make results depend on the process, so `getenv` (what `std::env::var` calls) and
// `getpid` are defined here.  On simulated threads during a run: the reference environment has
// no variable set (except the `RUST_*` ones std itself reads, which are forwarded) and pid 4242;
// a variant environment answers every queried name from the run's env seed - unset for a third
// of the names, otherwise a value from a small dictionary of numbers / switches / locales, and
// for `RAYON_NUM_THREADS` half of the time the pool size of the run - and a seeded pid.

static ENVVAR_SEED: AtomicU64 = AtomicU64::new(0);
static ENVVAR_WORKERS: AtomicUsize = AtomicUsize::new(1);
static ENVVAR_READS: AtomicU64 = AtomicU64::new(0);
static PID_READS: AtomicU64 = AtomicU64::new(0);

pub fn set_envvar_seed(seed: u64, workers: usize) {
    ENVVAR_SEED.store(seed, Ordering::SeqCst);
    ENVVAR_WORKERS.store(workers.clamp(1, 16), Ordering::SeqCst);
    ENVVAR_READS.store(0, Ordering::SeqCst);
    PID_READS.store(0, Ordering::SeqCst);
}

pub fn envvar_stats() -> (u64, u64) {
    (ENVVAR_READS.load(Ordering::SeqCst), PID_READS.load(Ordering::SeqCst))
}

const ENV_VALUES: &[&[u8]] = &[b"1\0", b"2\0", b"3\0", b"4\0", b"8\0", b"16\0", b"64\0", b"0\0", b"true\0", b"false\0", b"on\0", b"\0", b"C\0", b"de_DE.UTF-8\0", b"tr_TR.UTF-8\0", b"/tmp\0"];
const ENV_NUMBERS: &[&[u8]] = &[b"1\0", b"2\0", b"3\0", b"4\0", b"5\0", b"6\0", b"7\0", b"8\0", b"9\0", b"10\0", b"11\0", b"12\0", b"13\0", b"14\0", b"15\0", b"16\0"];

extern "C" {
    static environ: *const *const libc::c_char;
}

unsafe fn real_getenv(name: &[u8]) -> *mut libc::c_char {
    let mut p = environ;
    if p.is_null() {
        return std::ptr::null_mut();
    }
    while !(*p).is_null() {
        let e = *p as *const u8;
        let mut i = 0;
        while i < name.len() && *e.add(i) == name[i] {
            i += 1;
        }
        if i == name.len() && *e.add(i) == b'=' {
            return e.add(i + 1) as *mut libc::c_char;
        }
        p = p.add(1);
    }
    std::ptr::null_mut()
}

/// Interposes libc's `getenv` (what `std::env::var` / `var_os` call).
///
/// # Safety
/// `name` must be a NUL-terminated string (the libc contract).
#[no_mangle]
pub unsafe extern "C" fn getenv(name: *const libc::c_char) -> *mut libc::c_char {
    if name.is_null() {
        return std::ptr::null_mut();
    }
    let mut n = 0;
    while *name.add(n) != 0 {
        n += 1;
    }
    let nm = std::slice::from_raw_parts(name as *const u8, n);
    if !env_applies() || nm.starts_with(b"RUST_") || nm.starts_with(b"MIRI") || nm.starts_with(b"MALLOC_") || nm.starts_with(b"GLIBC_") || nm.starts_with(b"LD_") {
        return real_getenv(nm);
    }
    ENVVAR_READS.fetch_add(1, Ordering::SeqCst);
    let seed = ENVVAR_SEED.load(Ordering::SeqCst);
    if seed == 0 {
        return std::ptr::null_mut();
    }
    let mut h = seed;
    for &b in nm {
        h = splitmix(h ^ b as u64);
    }
    if h % 3 == 0 {
        return std::ptr::null_mut();
    }
    let looks_numeric = nm.ends_with(b"THREADS") || nm.ends_with(b"JOBS") || nm.ends_with(b"CPUS") || nm.ends_with(b"WORKERS") || nm.ends_with(b"PARALLELISM");
    let v: &[u8] = if looks_numeric {
        if (h >> 8) % 2 == 0 {
            ENV_NUMBERS[ENVVAR_WORKERS.load(Ordering::SeqCst) - 1]
        } else {
            ENV_NUMBERS[((h >> 16) % 16) as usize]
        }
    } else {
        ENV_VALUES[((h >> 16) % ENV_VALUES.len() as u64) as usize]
    };
    v.as_ptr() as *mut libc::c_char
}

/// Interposes libc's `getpid` (what `std::process::id` calls).
#[no_mangle]
pub extern "C" fn getpid() -> libc::pid_t {
    if !env_applies() {
        return unsafe { libc::syscall(libc::SYS_getpid) } as libc::pid_t;
    }
    PID_READS.fetch_add(1, Ordering::SeqCst);
    let seed = ENVVAR_SEED.load(Ordering::SeqCst);
    if seed == 0 {
        4242
    } else {
        (2 + splitmix(seed ^ 0x91d) % 4_000_000) as libc::pid_t
    }
}

// ---------------------------------------------------------------------------------------------
// S10: futex waits of simulated threads
// ---------------------------------------------------------------------------------------------
//
// A simulated thread can be parked at a scheduling point INSIDE a critical section (a lock held
// across a rayon call; in the instrumented build: at any atomic operation); the next thread to
// run would then block in the kernel on that lock while it holds the baton - a hang made by the
// simulator, not by the code.  std's locks, condition variables and thread parking enter the kernel through
// libc's `syscall(SYS_futex, ..)`, so that symbol is defined here: a futex WAIT of the baton
// holder on a word that is not one of the simulator's own becomes a scheduling point (the thread
// yields as "spinning" and returns to its retry loop); everything else goes to the kernel.

#[inline(always)]
unsafe fn raw_syscall6(n: libc::c_long, a1: libc::c_long, a2: libc::c_long, a3: libc::c_long, a4: libc::c_long, a5: libc::c_long, a6: libc::c_long) -> libc::c_long {
    let ret: libc::c_long;
    core::arch::asm!("syscall", inlateout("rax") n => ret, in("rdi") a1, in("rsi") a2, in("rdx") a3, in("r10") a4, in("r8") a5, in("r9") a6, lateout("rcx") _, lateout("r11") _, options(nostack));
    ret
}

pub static FUTEX_YIELDS: AtomicU64 = AtomicU64::new(0);

/// Interposes libc's `syscall`.
///
/// # Safety
/// The arguments must be valid for the requested system call (the libc contract).
#[no_mangle]
pub unsafe extern "C" fn syscall(n: libc::c_long, a1: libc::c_long, a2: libc::c_long, a3: libc::c_long, a4: libc::c_long, a5: libc::c_long, a6: libc::c_long) -> libc::c_long {
    if n == libc::SYS_futex {
        let cmd = (a2 as i32) & !(libc::FUTEX_PRIVATE_FLAG | libc::FUTEX_CLOCK_REALTIME);
        if (cmd == libc::FUTEX_WAIT || cmd == libc::FUTEX_WAIT_BITSET) && rayon_core::sim::is_baton_holder() && !rayon_core::sim::owns_address(a1 as usize) {
            if (*(a1 as *const std::sync::atomic::AtomicU32)).load(Ordering::SeqCst) != a3 as u32 {
                *libc::__errno_location() = libc::EAGAIN;
                return -1;
            }
            if rayon_core::sim::blocked_point() {
                FUTEX_YIELDS.fetch_add(1, Ordering::Relaxed);
                return 0;
            }
        }
    }
    let r = raw_syscall6(n, a1, a2, a3, a4, a5, a6);
    if (-4095..0).contains(&r) {
        *libc::__errno_location() = (-r) as libc::c_int;
        return -1;
    }
    r
}

// ---------------------------------------------------------------------------------------------
// S8: stack placement
// ---------------------------------------------------------------------------------------------
//
// Where a thread's stack lies (ASLR, the order in which the process mapped things, how deep the
// caller already is) is visible to code that takes the address of a local.  Simulated threads
// therefore run their whole body on stacks the simulator places: one fixed-address area per
// process (the same in every process, so also in the pristine-process oracle), 24 slots of
// 16 MiB + guard; the run's stack seed picks the slot of every simulated thread and a start
// offset of up to 1 MiB (reference: thread t in slot t, offset 0).  The switch is a plain
// `swapcontext` at thread start and back at thread end; a panic is carried across by value.

const STACK_AREA_AT: usize = 0x2000_0000_0000;
const STACK_SLOTS: usize = 24;
const STACK_BYTES: usize = 16 << 20;
const STACK_SLOT: usize = STACK_BYTES + (1 << 20);
static STACK_BASE: AtomicUsize = AtomicUsize::new(0);
static STACK_SEED: AtomicU64 = AtomicU64::new(0);
static STACK_RELOCATED: AtomicU64 = AtomicU64::new(0);
static STACK_RUNS: AtomicU64 = AtomicU64::new(0);

pub fn set_stack_seed(seed: u64) {
    STACK_SEED.store(seed, Ordering::SeqCst);
}
/// (threads that ran on a simulator-placed stack, 1 if the area could not be mapped at its fixed address)
pub fn stack_stats() -> (u64, u64) {
    (STACK_RUNS.load(Ordering::SeqCst), STACK_RELOCATED.load(Ordering::SeqCst))
}

fn stack_area() -> usize {
    let b = STACK_BASE.load(Ordering::SeqCst);
    if b != 0 {
        return b;
    }
    let _g = lock();
    let b = STACK_BASE.load(Ordering::SeqCst);
    if b != 0 {
        return b;
    }
    let len = STACK_SLOTS * STACK_SLOT;
    let flags = libc::MAP_PRIVATE | libc::MAP_ANONYMOUS | libc::MAP_NORESERVE;
    let mut p = unsafe { libc::mmap(STACK_AREA_AT as *mut libc::c_void, len, libc::PROT_READ | libc::PROT_WRITE, flags | libc::MAP_FIXED_NOREPLACE, -1, 0) };
    if p == libc::MAP_FAILED || p as usize != STACK_AREA_AT {
        if p != libc::MAP_FAILED {
            unsafe { libc::munmap(p, len) };
        }
        STACK_RELOCATED.store(1, Ordering::SeqCst);
        p = unsafe { libc::mmap(std::ptr::null_mut(), len, libc::PROT_READ | libc::PROT_WRITE, flags, -1, 0) };
        assert!(p != libc::MAP_FAILED, "stack area mmap failed");
    }
    for k in 0..STACK_SLOTS {
        // guard page at the low end of every slot
        unsafe { libc::mprotect((p as usize + k * STACK_SLOT) as *mut libc::c_void, 4096, libc::PROT_NONE) };
    }
    STACK_BASE.store(p as usize, Ordering::SeqCst);
    p as usize
}

/// (lowest usable address, usable length) of the stack of simulated thread `tid` under the
/// current stack seed
fn stack_of(tid: usize) -> (usize, usize) {
    let seed = STACK_SEED.load(Ordering::SeqCst);
    // thread ids: workers 0..16, external callers 16.. (at most 4 used)
    let t = if tid < 16 { tid } else { 16 + (tid - 16) % (STACK_SLOTS - 16) };
    let (slot, pad) = if seed == 0 {
        (t, 0)
    } else {
        // a seeded permutation of the slots (Fisher-Yates over 0..STACK_SLOTS), and a seeded start offset
        let mut perm = [0usize; STACK_SLOTS];
        for (i, p) in perm.iter_mut().enumerate() {
            *p = i;
        }
        let mut x = seed;
        for i in (1..STACK_SLOTS).rev() {
            x = splitmix(x);
            perm.swap(i, (x % (i as u64 + 1)) as usize);
        }
        (perm[t], ((splitmix(seed ^ (t as u64 + 1) << 32) % (1 << 16)) as usize) * 16)
    };
    let lo = stack_area() + slot * STACK_SLOT + 4096;
    (lo, STACK_SLOT - 4096 - pad)
}

struct Tramp<'a> {
    body: &'a mut dyn FnMut(),
    panic: Option<Box<dyn std::any::Any + Send>>,
}

extern "C" fn tramp_entry(lo: u32, hi: u32) {
    let p = ((hi as u64) << 32 | lo as u64) as usize as *mut Tramp<'static>;
    let t = unsafe { &mut *p };
    if let Err(e) = std::panic::catch_unwind(std::panic::AssertUnwindSafe(|| (t.body)())) {
        t.panic = Some(e);
    }
    // returning resumes uc_link
}

/// `sim::Config::thread_wrap`: runs the body of simulated thread `tid` on its simulator-placed stack.
pub fn on_sim_stack(tid: usize, body: &mut dyn FnMut()) {
    let (lo, len) = stack_of(tid);
    STACK_RUNS.fetch_add(1, Ordering::SeqCst);
    let mut t = Tramp { body, panic: None };
    let p = &mut t as *mut Tramp as usize as u64;
    unsafe {
        let mut main_ctx: libc::ucontext_t = std::mem::zeroed();
        let mut ctx: libc::ucontext_t = std::mem::zeroed();
        assert!(libc::getcontext(&mut ctx) == 0);
        ctx.uc_stack.ss_sp = lo as *mut libc::c_void;
        ctx.uc_stack.ss_size = len & !15;
        ctx.uc_link = &mut main_ctx;
        let entry: extern "C" fn() = std::mem::transmute(tramp_entry as extern "C" fn(u32, u32));
        libc::makecontext(&mut ctx, entry, 2, p as u32, (p >> 32) as u32);
        assert!(libc::swapcontext(&mut main_ctx, &ctx) == 0);
    }
    if let Some(e) = t.panic.take() {
        std::panic::resume_unwind(e);
    }
}

// ---------------------------------------------------------------------------------------------
// S3: address-order allocator
// ---------------------------------------------------------------------------------------------

const ARENA_BYTES: usize = 1 << 30; // virtual; touched pages only are backed
const ARENA_AT: usize = 0x1000_0000_0000;
static ARENA_RELOCATED: AtomicU64 = AtomicU64::new(0);
/// 1 if the arena could not be mapped at its fixed address in this process
pub fn arena_relocated() -> u64 {
    ARENA_RELOCATED.load(Ordering::SeqCst)
}
const MAX_SMALL: usize = 512;
const CLASSES: usize = MAX_SMALL / 16;
const POOL: usize = 8;

thread_local! {
    static SIM_THREAD: Cell<bool> = const { Cell::new(false) };
}

/// Marks the current OS thread as a simulated thread (its small allocations go to the arena).
pub fn mark_sim_thread() {
    SIM_THREAD.with(|c| c.set(true));
}

struct Arena {
    base: usize,
    bump: usize,
    epoch_start: usize,
    live: usize,
    free: [usize; CLASSES],
    pool: [[usize; POOL]; CLASSES],
    pool_n: [usize; CLASSES],
    shuffle: bool,
    rng: u64,
}

static LOCK: AtomicBool = AtomicBool::new(false);
static mut ARENA: Arena = Arena {
    base: 0,
    bump: 0,
    epoch_start: 0,
    live: 0,
    free: [0; CLASSES],
    pool: [[0; POOL]; CLASSES],
    pool_n: [0; CLASSES],
    shuffle: false,
    rng: 0,
};
static ARENA_ON: AtomicBool = AtomicBool::new(false);
static ARENA_LO: AtomicUsize = AtomicUsize::new(0);
static ARENA_HI: AtomicUsize = AtomicUsize::new(0);
static SHUFFLED: AtomicU64 = AtomicU64::new(0);
static ARENA_ALLOCS: AtomicU64 = AtomicU64::new(0);
static ABANDONED: AtomicU64 = AtomicU64::new(0);
static EXHAUSTED: AtomicU64 = AtomicU64::new(0);

struct Guard;
fn lock() -> Guard {
    while LOCK.compare_exchange_weak(false, true, Ordering::Acquire, Ordering::Relaxed).is_err() {
        std::hint::spin_loop();
    }
    Guard
}
impl Drop for Guard {
    fn drop(&mut self) {
        LOCK.store(false, Ordering::Release);
    }
}

#[allow(static_mut_refs)]
fn arena() -> &'static mut Arena {
    unsafe { &mut ARENA }
}

/// Starts a run: arena on for simulated threads, address order shuffled by `seed`
/// (`None` = reference: LIFO reuse, ascending fresh blocks).
pub fn begin_run(addr_seed: Option<u64>) {
    let _g = lock();
    let a = arena();
    if a.base == 0 {
        // at a fixed address, so that absolute small-block addresses (not only their order) are the
        // same function of the run in every process
        let flags = libc::MAP_PRIVATE | libc::MAP_ANONYMOUS | libc::MAP_NORESERVE;
        let mut p = unsafe { libc::mmap(ARENA_AT as *mut libc::c_void, ARENA_BYTES, libc::PROT_READ | libc::PROT_WRITE, flags | libc::MAP_FIXED_NOREPLACE, -1, 0) };
        if p == libc::MAP_FAILED || p as usize != ARENA_AT {
            if p != libc::MAP_FAILED {
                unsafe { libc::munmap(p, ARENA_BYTES) };
            }
            ARENA_RELOCATED.store(1, Ordering::SeqCst);
            p = unsafe { libc::mmap(std::ptr::null_mut(), ARENA_BYTES, libc::PROT_READ | libc::PROT_WRITE, flags, -1, 0) };
        }
        assert!(p != libc::MAP_FAILED, "arena mmap failed");
        a.base = p as usize;
        a.bump = a.base;
        a.epoch_start = a.base;
        ARENA_LO.store(a.base, Ordering::SeqCst);
        ARENA_HI.store(a.base + ARENA_BYTES, Ordering::SeqCst);
    }
    if a.live == 0 {
        a.bump = a.epoch_start; // nothing of the previous run is live: recycle its range
    } else {
        ABANDONED.fetch_add((a.bump - a.epoch_start) as u64, Ordering::SeqCst);
        a.epoch_start = a.bump;
        a.live = 0;
    }
    a.free = [0; CLASSES];
    a.pool_n = [0; CLASSES];
    a.shuffle = addr_seed.is_some();
    a.rng = addr_seed.unwrap_or(0);
    SHUFFLED.store(0, Ordering::SeqCst);
    ARENA_ALLOCS.store(0, Ordering::SeqCst);
    ARENA_ON.store(true, Ordering::SeqCst);
}

pub fn end_run() {
    ARENA_ON.store(false, Ordering::SeqCst);
}

#[derive(Clone, Copy, Debug, Default)]
pub struct AllocStats {
    pub arena_allocs: u64,
    pub shuffled_choices: u64,
    pub abandoned_bytes: u64,
    pub exhausted: u64,
}
pub fn alloc_stats() -> AllocStats {
    AllocStats {
        arena_allocs: ARENA_ALLOCS.load(Ordering::SeqCst),
        shuffled_choices: SHUFFLED.load(Ordering::SeqCst),
        abandoned_bytes: ABANDONED.load(Ordering::SeqCst),
        exhausted: EXHAUSTED.load(Ordering::SeqCst),
    }
}

impl Arena {
    fn next(&mut self) -> u64 {
        self.rng = self.rng.wrapping_add(0x9E37_79B9_7F4A_7C15);
        let mut z = self.rng;
        z = (z ^ (z >> 30)).wrapping_mul(0xBF58_476D_1CE4_E5B9);
        z = (z ^ (z >> 27)).wrapping_mul(0x94D0_49BB_1331_11EB);
        z ^ (z >> 31)
    }
    /// a slot of class `c`: reuse (LIFO) or carve
    fn slot(&mut self, c: usize) -> usize {
        if self.free[c] != 0 {
            let p = self.free[c];
            self.free[c] = unsafe { *(p as *const usize) };
            return p;
        }
        let sz = (c + 1) * 16;
        if self.bump + sz > self.base + ARENA_BYTES {
            return 0;
        }
        let p = self.bump;
        self.bump += sz;
        p
    }
    fn alloc(&mut self, c: usize) -> usize {
        if !self.shuffle {
            return self.slot(c);
        }
        while self.pool_n[c] < POOL {
            let s = self.slot(c);
            if s == 0 {
                break;
            }
            let n = self.pool_n[c];
            self.pool[c][n] = s;
            self.pool_n[c] = n + 1;
        }
        let n = self.pool_n[c];
        if n == 0 {
            return 0;
        }
        let k = (self.next() % n as u64) as usize;
        if n > 1 {
            SHUFFLED.fetch_add(1, Ordering::Relaxed);
        }
        let p = self.pool[c][k];
        self.pool[c][k] = self.pool[c][n - 1];
        self.pool_n[c] = n - 1;
        p
    }
}

pub struct SimAlloc;

unsafe impl GlobalAlloc for SimAlloc {
    unsafe fn alloc(&self, layout: Layout) -> *mut u8 {
        let sz = layout.size();
        if sz != 0 && sz <= MAX_SMALL && layout.align() <= 16 && ARENA_ON.load(Ordering::Relaxed) && SIM_THREAD.with(|c| c.get()) {
            let c = (sz - 1) / 16;
            let p = {
                let _g = lock();
                let a = arena();
                let p = a.alloc(c);
                if p != 0 {
                    a.live += 1;
                }
                p
            };
            if p != 0 {
                ARENA_ALLOCS.fetch_add(1, Ordering::Relaxed);
                return p as *mut u8;
            }
            EXHAUSTED.fetch_add(1, Ordering::Relaxed);
        }
        System.alloc(layout)
    }
    unsafe fn dealloc(&self, ptr: *mut u8, layout: Layout) {
        let p = ptr as usize;
        if p >= ARENA_LO.load(Ordering::Relaxed) && p < ARENA_HI.load(Ordering::Relaxed) {
            let _g = lock();
            let a = arena();
            if p >= a.epoch_start {
                let c = (layout.size() - 1) / 16;
                *(p as *mut usize) = a.free[c];
                a.free[c] = p;
                a.live -= 1;
            }
            // a block of an abandoned epoch: its range is never reused, nothing to do
            return;
        }
        System.dealloc(ptr, layout)
    }
    unsafe fn realloc(&self, ptr: *mut u8, layout: Layout, new_size: usize) -> *mut u8 {
        let p = ptr as usize;
        let in_arena = p >= ARENA_LO.load(Ordering::Relaxed) && p < ARENA_HI.load(Ordering::Relaxed);
        if !in_arena && !(new_size <= MAX_SMALL && ARENA_ON.load(Ordering::Relaxed) && SIM_THREAD.with(|c| c.get())) {
            return System.realloc(ptr, layout, new_size);
        }
        let new_layout = Layout::from_size_align_unchecked(new_size, layout.align());
        let q = self.alloc(new_layout);
        if !q.is_null() {
            std::ptr::copy_nonoverlapping(ptr, q, layout.size().min(new_size));
            self.dealloc(ptr, layout);
        }
        q
    }
}

// ---------------------------------------------------------------------------------------------
// S7: resource guard — run a closure in a forked child under memory and time limits
// ---------------------------------------------------------------------------------------------

/// Runs `f` in a forked child (address-space limit `mem_bytes`, wall limit `secs`) and reports
/// whether it finished normally.  Used to screen scenarios whose *knob* (not geo's shipped
/// configuration) can drive a dependency into unbounded work; must be called while the process
/// is single-threaded (between simulations).
pub fn survives_in_child(mem_bytes: u64, secs: u32, f: impl FnOnce()) -> bool {
    unsafe {
        let pid = libc::fork();
        if pid < 0 {
            return true; // cannot fork: do not block the run
        }
        if pid == 0 {
            let lim = libc::rlimit { rlim_cur: mem_bytes, rlim_max: mem_bytes };
            libc::setrlimit(libc::RLIMIT_AS, &lim);
            libc::alarm(secs);
            let devnull = libc::open(c"/dev/null".as_ptr(), libc::O_WRONLY);
            if devnull >= 0 {
                libc::dup2(devnull, 2);
                libc::dup2(devnull, 1);
            }
            f();
            libc::_exit(0);
        }
        let mut status: libc::c_int = 0;
        loop {
            let r = libc::waitpid(pid, &mut status, 0);
            if r == pid || r < 0 {
                break;
            }
        }
        libc::WIFEXITED(status) && libc::WEXITSTATUS(status) == 0
    }
}

// ---------------------------------------------------------------------------------------------
// Pristine-process oracle: a server forked before the first simulation of the shard; every
// request is answered by a freshly forked child of that server, i.e. by a process that has never
// run anything — the "fresh process" of C20 — under memory and time limits.
// ---------------------------------------------------------------------------------------------

pub struct Pristine {
    to_server: libc::c_int,
    from_server: libc::c_int,
    pid: libc::pid_t,
}

unsafe fn write_all(fd: libc::c_int, mut p: *const u8, mut n: usize) -> bool {
    while n > 0 {
        let r = libc::write(fd, p as *const libc::c_void, n);
        if r <= 0 {
            if r < 0 && *libc::__errno_location() == libc::EINTR {
                continue;
            }
            return false;
        }
        p = p.add(r as usize);
        n -= r as usize;
    }
    true
}
unsafe fn read_all(fd: libc::c_int, mut p: *mut u8, mut n: usize) -> bool {
    while n > 0 {
        let r = libc::read(fd, p as *mut libc::c_void, n);
        if r <= 0 {
            if r < 0 && *libc::__errno_location() == libc::EINTR {
                continue;
            }
            return false;
        }
        p = p.add(r as usize);
        n -= r as usize;
    }
    true
}

impl Pristine {
    /// Must be called while the process is single-threaded and before any simulation has run.
    /// `handler(request, time_limit_s)` runs in the fresh grandchild and returns the answer bytes.
    pub fn start(mem_bytes: u64, handler: fn(&[u8]) -> Vec<u8>) -> Option<Pristine> {
        unsafe {
            let mut a = [0 as libc::c_int; 2];
            let mut b = [0 as libc::c_int; 2];
            if libc::pipe(a.as_mut_ptr()) != 0 || libc::pipe(b.as_mut_ptr()) != 0 {
                return None;
            }
            let pid = libc::fork();
            if pid < 0 {
                return None;
            }
            if pid == 0 {
                // ---- server (pristine; never simulates itself)
                libc::close(a[1]);
                libc::close(b[0]);
                let devnull = libc::open(c"/dev/null".as_ptr(), libc::O_WRONLY);
                if devnull >= 0 {
                    libc::dup2(devnull, 2);
                    libc::dup2(devnull, 1);
                }
                loop {
                    let mut hdr = [0u8; 8];
                    if !read_all(a[0], hdr.as_mut_ptr(), 8) {
                        libc::_exit(0);
                    }
                    let len = u32::from_le_bytes(hdr[0..4].try_into().unwrap()) as usize;
                    let secs = u32::from_le_bytes(hdr[4..8].try_into().unwrap());
                    if len == 0 {
                        libc::_exit(0);
                    }
                    let mut req = vec![0u8; len];
                    if !read_all(a[0], req.as_mut_ptr(), len) {
                        libc::_exit(0);
                    }
                    let mut ans = [0 as libc::c_int; 2];
                    if libc::pipe(ans.as_mut_ptr()) != 0 {
                        libc::_exit(3);
                    }
                    let child = libc::fork();
                    if child == 0 {
                        libc::close(ans[0]);
                        let lim = libc::rlimit { rlim_cur: mem_bytes, rlim_max: mem_bytes };
                        libc::setrlimit(libc::RLIMIT_AS, &lim);
                        libc::alarm(secs);
                        let out = handler(&req);
                        let l = (out.len() as u32).to_le_bytes();
                        write_all(ans[1], l.as_ptr(), 4);
                        write_all(ans[1], out.as_ptr(), out.len());
                        libc::_exit(0);
                    }
                    libc::close(ans[1]);
                    let mut l = [0u8; 4];
                    let mut out: Vec<u8> = vec![];
                    let ok = child > 0 && read_all(ans[0], l.as_mut_ptr(), 4) && {
                        out = vec![0u8; u32::from_le_bytes(l) as usize];
                        read_all(ans[0], out.as_mut_ptr(), out.len())
                    };
                    libc::close(ans[0]);
                    if child > 0 {
                        let mut st = 0;
                        libc::waitpid(child, &mut st, 0);
                    }
                    // reply: 1 byte status (1 ok, 0 failed) + u32 len + bytes
                    let status = [ok as u8];
                    let ol = (if ok { out.len() as u32 } else { 0 }).to_le_bytes();
                    if !write_all(b[1], status.as_ptr(), 1) || !write_all(b[1], ol.as_ptr(), 4) || (ok && !write_all(b[1], out.as_ptr(), out.len())) {
                        libc::_exit(0);
                    }
                }
            }
            libc::close(a[0]);
            libc::close(b[1]);
            Some(Pristine { to_server: a[1], from_server: b[0], pid })
        }
    }

    /// `None` = the fresh process did not finish within its limits (or died).
    pub fn ask(&self, req: &[u8], secs: u32) -> Option<Vec<u8>> {
        unsafe {
            let mut hdr = [0u8; 8];
            hdr[0..4].copy_from_slice(&(req.len() as u32).to_le_bytes());
            hdr[4..8].copy_from_slice(&secs.to_le_bytes());
            if !write_all(self.to_server, hdr.as_ptr(), 8) || !write_all(self.to_server, req.as_ptr(), req.len()) {
                return None;
            }
            let mut st = [0u8; 1];
            let mut l = [0u8; 4];
            if !read_all(self.from_server, st.as_mut_ptr(), 1) || !read_all(self.from_server, l.as_mut_ptr(), 4) {
                return None;
            }
            let n = u32::from_le_bytes(l) as usize;
            let mut out = vec![0u8; n];
            if n > 0 && !read_all(self.from_server, out.as_mut_ptr(), n) {
                return None;
            }
            if st[0] == 1 {
                Some(out)
            } else {
                None
            }
        }
    }
}

impl Drop for Pristine {
    fn drop(&mut self) {
        unsafe {
            let hdr = [0u8; 8];
            write_all(self.to_server, hdr.as_ptr(), 8);
            libc::close(self.to_server);
            libc::close(self.from_server);
            let mut st = 0;
            libc::waitpid(self.pid, &mut st, 0);
        }
    }
}
