//! Canonical byte serialisation (the C20 outcome) and digests.

pub fn fnv1a(data: &[u8]) -> u64 {
    let mut h: u64 = 0xcbf2_9ce4_8422_2325;
    for &b in data {
        h ^= b as u64;
        h = h.wrapping_mul(0x0000_0100_0000_01B3);
    }
    h
}

pub fn hex(data: &[u8]) -> String {
    let mut s = String::with_capacity(data.len() * 2);
    for b in data {
        s.push_str(&format!("{:02x}", b));
    }
    s
}

/// Byte sink with the few primitives the canonical encodings need.
#[derive(Default, Clone, PartialEq, Eq, Debug)]
pub struct Out(pub Vec<u8>);

impl Out {
    pub fn new() -> Out {
        Out(Vec::new())
    }
    pub fn tag(&mut self, t: u8) {
        self.0.push(t);
    }
    pub fn len(&mut self, n: usize) {
        self.0.extend_from_slice(&(n as u64).to_le_bytes());
    }
    pub fn u64(&mut self, v: u64) {
        self.0.extend_from_slice(&v.to_le_bytes());
    }
    pub fn i64(&mut self, v: i64) {
        self.0.extend_from_slice(&v.to_le_bytes());
    }
    pub fn bool(&mut self, v: bool) {
        self.0.push(v as u8);
    }
    /// Bit pattern of a double; every NaN is collapsed to one code so that NaN payloads
    /// (which IEEE leaves unspecified) can never raise an alarm.
    pub fn f64(&mut self, v: f64) {
        let bits = if v.is_nan() { 0x7ff8_0000_0000_0000u64 } else { v.to_bits() };
        self.0.extend_from_slice(&bits.to_le_bytes());
    }
    pub fn str(&mut self, s: &str) {
        self.len(s.len());
        self.0.extend_from_slice(s.as_bytes());
    }
}

pub trait Canon {
    fn canon(&self, out: &mut Out);
    fn canon_bytes(&self) -> Vec<u8> {
        let mut o = Out::new();
        self.canon(&mut o);
        o.0
    }
}

impl Canon for f64 {
    fn canon(&self, out: &mut Out) {
        out.f64(*self)
    }
}
impl Canon for f32 {
    fn canon(&self, out: &mut Out) {
        out.f64(*self as f64)
    }
}
impl Canon for bool {
    fn canon(&self, out: &mut Out) {
        out.bool(*self)
    }
}
impl Canon for usize {
    fn canon(&self, out: &mut Out) {
        out.u64(*self as u64)
    }
}
impl Canon for u64 {
    fn canon(&self, out: &mut Out) {
        out.u64(*self)
    }
}
impl Canon for i64 {
    fn canon(&self, out: &mut Out) {
        out.i64(*self)
    }
}
impl Canon for i32 {
    fn canon(&self, out: &mut Out) {
        out.i64(*self as i64)
    }
}
impl Canon for String {
    fn canon(&self, out: &mut Out) {
        out.str(self)
    }
}
impl<T: Canon> Canon for Vec<T> {
    fn canon(&self, out: &mut Out) {
        out.len(self.len());
        for x in self {
            x.canon(out);
        }
    }
}
impl<T: Canon> Canon for [T] {
    fn canon(&self, out: &mut Out) {
        out.len(self.len());
        for x in self {
            x.canon(out);
        }
    }
}
impl<T: Canon> Canon for Option<T> {
    fn canon(&self, out: &mut Out) {
        match self {
            None => out.tag(0),
            Some(x) => {
                out.tag(1);
                x.canon(out)
            }
        }
    }
}
impl<A: Canon, B: Canon> Canon for (A, B) {
    fn canon(&self, out: &mut Out) {
        self.0.canon(out);
        self.1.canon(out);
    }
}
impl<A: Canon, B: Canon, C: Canon> Canon for (A, B, C) {
    fn canon(&self, out: &mut Out) {
        self.0.canon(out);
        self.1.canon(out);
        self.2.canon(out);
    }
}
impl<T: Canon + ?Sized> Canon for &T {
    fn canon(&self, out: &mut Out) {
        (**self).canon(out)
    }
}
