//! Shard loop, replay and evidence bookkeeping for the C17 `hist` engine.

use crate::c17::*;
use crate::cli::*;
use serde_json::{json, Value};
use simkit::fnv1a;
use simkit::rng::{mix, name_hash};
use std::time::Instant;

pub fn run(a: &Args) -> i32 {
    install_quiet_panic_hook();
    let t0 = Instant::now();
    let mut total = Probes::default();
    let mut evaluations: u64 = 0;
    let mut steps: u64 = 0;
    let mut hashes: Vec<u64> = Vec::new();
    let mut samples: Vec<Value> = Vec::new();
    let mut violations: Vec<Value> = Vec::new();
    let mut r = a.shard_i;
    while r < a.runs {
        let s_r = mix(&[a.seed, name_hash("C17"), r]);
        let h = gen_history(s_r);
        evaluations += 1;
        let rr = run_history(&h);
        steps += rr.steps as u64;
        total.merge(&rr.probes);
        if rr.max_reuse >= 2 {
            hashes.push(fnv1a(&serde_json::to_vec(&h).unwrap()));
            if samples.len() < 2 && rr.max_reuse >= 3 {
                samples.push(json!({"run": r, "history": h}));
            }
        }
        if let Some(v) = rr.violation {
            if violations.len() < 2 {
                let (mh, mv) = minimise(&h, &v);
                let rep = json!({
                    "property": "C17", "engine": "hist", "verif_seed": a.seed, "run": r, "tier": a.tier,
                    "history": mh, "violation": mv,
                    "minimised_from": {"steps": h.steps.len(), "geoms": h.geoms.len(), "violation": v},
                });
                let path = write_replay(a, &format!("C17-{}-{}.json", a.seed, r), &rep);
                violations.push(json!({"replay": path, "class": mv.class, "op": mv.op, "detail": mv.detail, "steps": mh.steps.len()}));
            } else {
                violations.push(json!({"replay": Value::Null, "class": v.class, "op": v.op, "run": r}));
            }
        }
        r += a.shard_n;
    }
    hashes.sort_unstable();
    hashes.dedup();
    write_hashes(a, &hashes);
    let summary = json!({
        "property": "C17", "shard": a.shard_i, "evaluations": evaluations, "steps": steps,
        "probes": probes_json(&total.c), "nontrivial_distinct_in_shard": hashes.len(),
        "samples": samples, "violations": violations,
        "prepared_is_send": crate::sendprobe::prepared_is_send(),
        "prepared_is_sync": crate::sendprobe::prepared_is_sync(),
        "wall_ms": t0.elapsed().as_millis() as u64,
    });
    write_summary(a, &summary);
    0
}

pub fn replay(a: &Args) -> i32 {
    install_quiet_panic_hook();
    let f = a.file.clone().expect("--file");
    let v: Value = serde_json::from_slice(&std::fs::read(&f).expect("read replay")).expect("json");
    let h: History = serde_json::from_value(v["history"].clone()).expect("history");
    let want: Violation = serde_json::from_value(v["violation"].clone()).expect("violation");
    let rr = run_history(&h);
    match rr.violation {
        Some(got) if got.class == want.class => {
            println!("step {} ({}): {}", got.step, got.op, got.detail);
            println!("VIOLATION property=C17 replay={}", f);
            1
        }
        other => {
            println!("NOT-REPRODUCED property=C17 replay={} (now: {:?})", f, other);
            0
        }
    }
}
