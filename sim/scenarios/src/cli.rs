//! Command line and per-shard bookkeeping shared by the engines.

use serde_json::{json, Value};
use std::collections::BTreeMap;

#[derive(Clone, Debug)]
pub struct Args {
    pub prop: String,
    pub mode: String,
    pub seed: u64,
    pub tier: String,
    pub shard_i: u64,
    pub shard_n: u64,
    pub runs: u64,
    pub out_dir: String,
    pub replay_dir: String,
    pub file: Option<String>,
    pub extra: BTreeMap<String, String>,
}

pub fn parse_args() -> Args {
    let av: Vec<String> = std::env::args().collect();
    if av.len() < 3 {
        eprintln!("usage: simrun <C17|C18|C20> <run|replay> [--seed N] [--tier quick|thorough] [--shard i/n] [--runs N] [--out DIR] [--replay-dir DIR] [--file F] [--key value]...");
        std::process::exit(2);
    }
    let mut a = Args {
        prop: av[1].to_uppercase(),
        mode: av[2].clone(),
        seed: 1,
        tier: "quick".into(),
        shard_i: 0,
        shard_n: 1,
        runs: 1000,
        out_dir: ".".into(),
        replay_dir: ".".into(),
        file: None,
        extra: BTreeMap::new(),
    };
    let mut i = 3;
    while i < av.len() {
        let k = av[i].as_str();
        let v = av.get(i + 1).cloned().unwrap_or_default();
        match k {
            "--seed" => a.seed = v.parse().expect("--seed"),
            "--tier" => a.tier = v,
            "--shard" => {
                let (x, y) = v.split_once('/').expect("--shard i/n");
                a.shard_i = x.parse().unwrap();
                a.shard_n = y.parse().unwrap();
            }
            "--runs" => a.runs = v.parse().expect("--runs"),
            "--out" => a.out_dir = v,
            "--replay-dir" => a.replay_dir = v,
            "--file" => a.file = Some(v),
            _ if k.starts_with("--") => {
                a.extra.insert(k[2..].to_string(), v);
            }
            _ => {
                eprintln!("unknown argument {k}");
                std::process::exit(2);
            }
        }
        i += 2;
    }
    a
}

/// Writes the per-shard summary (read back and aggregated by the driver).
pub fn write_summary(a: &Args, v: &Value) {
    let p = format!("{}/{}-shard{}.json", a.out_dir, a.prop, a.shard_i);
    std::fs::write(&p, serde_json::to_vec(v).unwrap()).expect("write summary");
}

/// Writes the 64-bit hashes of the non-trivial cases of this shard (the driver unions them over
/// shards to count *distinct* non-trivial cases exactly).
pub fn write_hashes(a: &Args, hs: &[u64]) {
    write_hashes_as(a, &a.prop, hs)
}

pub fn write_hashes_as(a: &Args, prop: &str, hs: &[u64]) {
    let p = format!("{}/{}-shard{}.hashes", a.out_dir, prop, a.shard_i);
    let mut b = Vec::with_capacity(hs.len() * 8);
    for h in hs {
        b.extend_from_slice(&h.to_le_bytes());
    }
    std::fs::write(&p, b).expect("write hashes");
}

pub fn write_replay(a: &Args, name: &str, v: &Value) -> String {
    let p = format!("{}/{}", a.replay_dir, name);
    std::fs::write(&p, serde_json::to_vec_pretty(v).unwrap()).expect("write replay");
    p
}

pub fn probes_json(m: &BTreeMap<&'static str, u64>) -> Value {
    let mut o = serde_json::Map::new();
    for (k, v) in m {
        o.insert(k.to_string(), json!(v));
    }
    Value::Object(o)
}

// ---- quiet panic capture -------------------------------------------------------------------

use std::cell::RefCell;
thread_local! {
    static LAST_PANIC: RefCell<Option<String>> = const { RefCell::new(None) };
}

/// Installs a hook that prints nothing and remembers `file:line` of the last panic of the
/// current thread (the message text is ignored: it may contain addresses).
pub fn install_quiet_panic_hook() {
    std::panic::set_hook(Box::new(|info| {
        let loc = info.location().map(|l| format!("{}:{}", l.file(), l.line())).unwrap_or_else(|| "?".into());
        LAST_PANIC.with(|p| *p.borrow_mut() = Some(loc));
    }));
}

pub fn take_last_panic() -> Option<String> {
    LAST_PANIC.with(|p| p.borrow_mut().take())
}
