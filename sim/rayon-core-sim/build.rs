fn main() {}
