#!/bin/sh
# RUSTC_WRAPPER of the atomic-granular tier: the crates under test (and the real rayon, whose
# iterators run inside jobs) are compiled with the ThreadSanitizer pass, atomics only; the harness,
# the pool stub and everything else are not.  The runtime the pass calls into is sim/scenarios/src/tsanrt.rs.
rustc="$1"; shift
name=""; prev=""
for a in "$@"; do
  [ "$prev" = "--crate-name" ] && name="$a"
  prev="$a"
done
case "$name" in
  catalogue|geo|geo_types|rayon|i_overlay|i_shape|i_float|i_tree|i_key_sort|spade|rstar|earcutr|robust|geographiclib_rs|float_next_after|num_traits|smallvec|hashbrown|heapless)
    exec "$rustc" "$@" -Zsanitizer=thread -Cunsafe-allow-abi-mismatch=sanitizer \
      -Cllvm-args=-tsan-instrument-memory-accesses=0 -Cllvm-args=-tsan-instrument-func-entry-exit=0 -Cllvm-args=-tsan-instrument-memintrinsics=0 ;;
  *)
    exec "$rustc" "$@" -Cunsafe-allow-abi-mismatch=sanitizer ;;
esac
