//! The simulated pool: N worker threads + external callers, all real OS threads parked on one
//! baton, **exactly one runs at a time**; a seeded (or replayed) scheduler makes every
//! resume / wake / pop / steal / take-injected decision.  Protocol semantics follow
//! rayon-core 1.13.0's registry (see DESIGN.md Appendix A).

use std::any::Any;
use std::cell::{Cell, UnsafeCell};
use std::collections::VecDeque;
use std::panic::{catch_unwind, resume_unwind, AssertUnwindSafe};
use std::sync::atomic::{AtomicBool, AtomicU64, Ordering};
use std::sync::{Condvar, Mutex, MutexGuard};

pub const MAX_WORKERS: usize = 16;
pub const MAX_THREADS: usize = 64;
const EXT_BASE: usize = MAX_WORKERS;

// ---------------------------------------------------------------------------------------------
// public configuration / report
// ---------------------------------------------------------------------------------------------

#[derive(Clone, Copy, Debug, PartialEq, Eq)]
pub enum Strategy {
    /// never steal unless nothing else can move: behaviourally the one-thread run
    Sequential,
    Uniform,
    StealEager,
    /// steal only with probability num/256 when something else can move
    StealRare(u8),
    /// PCT-style: random thread priorities, `d` priority-change points
    Pct(u8),
}

#[derive(Clone, Debug)]
pub struct Config {
    pub workers: usize,
    pub strategy: Strategy,
    pub seed: u64,
    /// recorded `chosen` column to feed back (replay mode)
    pub replay: Option<Vec<u32>>,
    pub step_budget: u64,
    /// stack size of every simulated thread
    pub stack: usize,
    /// expected run length for PCT change points
    pub pct_horizon: u32,
    /// called first thing on every simulated thread (scenario thread and workers)
    pub thread_start: Option<fn()>,
    /// wraps the whole body of every simulated thread (worker i = thread i, external caller x =
    /// thread 16 + x): must call the given closure exactly once, possibly on another stack (the
    /// harness uses this to put simulated threads on stacks whose addresses it decides); with a
    /// wrapper the OS thread itself only needs a small stack
    pub thread_wrap: Option<fn(usize, &mut dyn FnMut())>,
    /// atomic-granular tier (instrumented build only): at every atomic operation of instrumented
    /// code a simulated thread offers the baton with probability `atomic_rate`/256 (0 = never:
    /// job-granular scheduling, the default)
    pub atomic_rate: u16,
    /// a simulated thread that would block in the kernel (futex wait) on something another
    /// simulated thread holds yields instead (`blocked_point`); needs the harness's `syscall` seam
    pub yield_on_block: bool,
}

impl Default for Config {
    fn default() -> Self {
        Config { workers: 1, strategy: Strategy::Sequential, seed: 0, replay: None, step_budget: 5_000_000, stack: 64 << 20, pct_horizon: 400, thread_start: None, thread_wrap: None, atomic_rate: 0, yield_on_block: false }
    }
}

#[derive(Clone, Copy, Debug, PartialEq, Eq)]
pub struct Decision {
    pub n_enabled: u32,
    pub chosen: u32,
    /// 0 resume, 1 wake, 2 pop, 3 steal, 4 take_injected, 5 finish
    pub kind: u8,
    pub actor: u8,
    pub victim: u8,
}

#[derive(Clone, Debug, Default)]
pub struct Stats {
    pub steps: u64,
    pub joins: u64,
    pub scope_spawns: u64,
    pub detached_spawns: u64,
    pub injected: u64,
    pub resumes: u64,
    pub wakes: u64,
    pub pops: u64,
    pub steals: u64,
    pub took_injected: u64,
    pub inline_b: u64,
    pub jobs_via_ref: u64,
    pub max_deque: u64,
    pub workers_started: u64,
    pub workers_that_ran_jobs: u64,
    /// atomic operations of instrumented code seen on simulated threads / those at which another
    /// action was enabled and the baton was offered / futex waits turned into yields
    pub atomic_ops: u64,
    pub atomic_points: u64,
    pub blocked_points: u64,
}

#[derive(Clone, Debug, Default)]
pub struct Report {
    pub decisions: Vec<Decision>,
    pub stats: Stats,
    /// simulator-level failure (stall, budget, replay divergence): a harness error, never a
    /// verdict about the code under test
    pub error: Option<String>,
}

impl Report {
    pub fn log_hash(&self) -> u64 {
        let mut h: u64 = 0xcbf2_9ce4_8422_2325;
        for d in &self.decisions {
            for b in [d.n_enabled as u64, d.chosen as u64] {
                h ^= b;
                h = h.wrapping_mul(0x0000_0100_0000_01B3);
            }
        }
        h
    }
    pub fn chosen(&self) -> Vec<u32> {
        self.decisions.iter().map(|d| d.chosen).collect()
    }
    pub fn describe(d: &Decision) -> String {
        let t = |i: u8| if (i as usize) < EXT_BASE { format!("W{}", i) } else { format!("X{}", i as usize - EXT_BASE) };
        match d.kind {
            0 => format!("resume {}", t(d.actor)),
            1 => format!("wake {}", t(d.actor)),
            2 => format!("pop {}", t(d.actor)),
            3 => format!("steal {}<-{}", t(d.actor), t(d.victim)),
            4 => format!("take_injected {}", t(d.actor)),
            _ => format!("finish {}", t(d.actor)),
        }
    }
}

// ---------------------------------------------------------------------------------------------
// jobs
// ---------------------------------------------------------------------------------------------

#[derive(Clone, Copy)]
pub(crate) struct JobRef {
    ptr: *const (),
    exec: unsafe fn(*const ()),
    pub(crate) id: u64,
}
unsafe impl Send for JobRef {}

impl JobRef {
    pub(crate) unsafe fn execute(self) {
        (self.exec)(self.ptr)
    }
}

static NEXT_JOB_ID: AtomicU64 = AtomicU64::new(1);
fn next_job_id() -> u64 {
    NEXT_JOB_ID.fetch_add(1, Ordering::Relaxed)
}

pub(crate) enum JobResult<R> {
    None,
    Ok(R),
    Panic(Box<dyn Any + Send>),
}

/// A job living in its owner's stack frame (the owner cannot leave before the latch is set or
/// the job was run inline).
pub(crate) struct StackJob<F, R> {
    func: UnsafeCell<Option<F>>,
    result: UnsafeCell<JobResult<R>>,
    pub(crate) latch: AtomicBool,
    executed: Cell<bool>,
}

impl<F, R> StackJob<F, R>
where
    F: FnOnce(bool) -> R,
{
    pub(crate) fn new(f: F) -> Self {
        StackJob { func: UnsafeCell::new(Some(f)), result: UnsafeCell::new(JobResult::None), latch: AtomicBool::new(false), executed: Cell::new(false) }
    }
    pub(crate) unsafe fn as_job_ref(&self) -> JobRef {
        JobRef { ptr: self as *const Self as *const (), exec: Self::execute_erased, id: next_job_id() }
    }
    unsafe fn execute_erased(p: *const ()) {
        let this = &*(p as *const Self);
        assert!(!this.executed.replace(true), "sim invariant: a JobRef was executed twice");
        let f = (*this.func.get()).take().expect("job function present");
        // a job run through its JobRef always sees migrated = true (StackJob::execute)
        *this.result.get() = match catch_unwind(AssertUnwindSafe(|| f(true))) {
            Ok(v) => JobResult::Ok(v),
            Err(e) => JobResult::Panic(e),
        };
        this.latch.store(true, Ordering::SeqCst);
    }
    pub(crate) unsafe fn run_inline(self, migrated: bool) -> R {
        assert!(!self.executed.replace(true), "sim invariant: job run inline after execution");
        let f = self.func.into_inner().expect("job function present");
        f(migrated)
    }
    pub(crate) unsafe fn into_result(self) -> R {
        match self.result.into_inner() {
            JobResult::Ok(v) => v,
            JobResult::Panic(e) => resume_unwind(e),
            JobResult::None => unreachable!("sim invariant: latch set without a result"),
        }
    }
}

/// A boxed job (scope spawns and detached spawns).
pub(crate) struct HeapJob {
    f: Box<dyn FnOnce() + Send>,
}
impl HeapJob {
    pub(crate) fn new(f: Box<dyn FnOnce() + Send>) -> Box<HeapJob> {
        Box::new(HeapJob { f })
    }
    pub(crate) fn into_job_ref(self: Box<Self>) -> JobRef {
        JobRef { ptr: Box::into_raw(self) as *const (), exec: Self::execute_erased, id: next_job_id() }
    }
    unsafe fn execute_erased(p: *const ()) {
        let this = Box::from_raw(p as *mut HeapJob);
        (this.f)();
    }
}

#[derive(Clone, Copy)]
pub(crate) struct LatchPtr(pub *const AtomicBool);
unsafe impl Send for LatchPtr {}
impl LatchPtr {
    fn is_set(&self) -> bool {
        unsafe { (*self.0).load(Ordering::SeqCst) }
    }
}

// ---------------------------------------------------------------------------------------------
// simulator state
// ---------------------------------------------------------------------------------------------

#[derive(Clone, Copy)]
enum St {
    Absent,
    Running,
    AtPoint,
    /// would block in the kernel on a lock / condition another simulated thread must release
    /// (futex wait turned into a yield): resumed only when nothing else can move, or by choice
    /// among the others once something has moved
    Spin,
    /// waiting on a latch; `can_work` = a worker that may pop / steal / take injected meanwhile
    Wait(LatchPtr, bool),
    Idle,
    /// the scenario thread after its closure returned: waits until the pool has drained
    Drain,
    Done,
}

pub(crate) enum Assignment {
    Resume,
    Wake,
    Run(JobRef),
    Terminate,
}

struct Rng(u64);
impl Rng {
    fn next(&mut self) -> u64 {
        self.0 = self.0.wrapping_add(0x9E37_79B9_7F4A_7C15);
        let mut z = self.0;
        z = (z ^ (z >> 30)).wrapping_mul(0xBF58_476D_1CE4_E5B9);
        z = (z ^ (z >> 27)).wrapping_mul(0x94D0_49BB_1331_11EB);
        z ^ (z >> 31)
    }
    fn below(&mut self, n: usize) -> usize {
        (self.next() % n as u64) as usize
    }
}

#[derive(Clone, Copy)]
struct Act {
    kind: u8,
    t: usize,
    v: usize,
}

struct Sim {
    cfg: Config,
    rng: Rng,
    /// separate stream for "is this atomic operation a scheduling point" (so that a replay, which
    /// draws nothing for its choices, meets the same points)
    arng: Rng,
    n: usize,
    workers_started: bool,
    deques: Vec<VecDeque<JobRef>>,
    injector: VecDeque<JobRef>,
    status: [St; MAX_THREADS],
    assign: Vec<Option<Assignment>>,
    turn: usize,
    log: Vec<Decision>,
    replay_pos: usize,
    stats: Stats,
    ran_jobs: [bool; MAX_WORKERS],
    error: Option<String>,
    prio: [u32; MAX_THREADS],
    pct_points: Vec<u64>,
    pct_low: u32,
    started_ack: usize,
    scratch: Vec<Act>,
    /// consecutive decisions in which only spinning threads could move (a lock none of them will get)
    spin_streak: u32,
}

static SIM: Mutex<Option<Sim>> = Mutex::new(None);
#[allow(clippy::declare_interior_mutable_const)]
const CV_INIT: Condvar = Condvar::new();
static CVS: [Condvar; MAX_THREADS] = [CV_INIT; MAX_THREADS];
static CV_SPAWN: Condvar = Condvar::new();
static ACTIVE: AtomicBool = AtomicBool::new(false);
/// mirror of `Sim::turn` / "atomic points are on" readable without the simulator lock
static TURN: std::sync::atomic::AtomicUsize = std::sync::atomic::AtomicUsize::new(usize::MAX);
static ATOMIC_ON: AtomicBool = AtomicBool::new(false);

thread_local! {
    /// simulated thread id of the current OS thread (None: not part of a simulation)
    static TID: Cell<Option<usize>> = const { Cell::new(None) };
}

fn lock() -> MutexGuard<'static, Option<Sim>> {
    match SIM.lock() {
        Ok(g) => g,
        Err(p) => p.into_inner(),
    }
}

pub(crate) fn current_tid() -> Option<usize> {
    if !ACTIVE.load(Ordering::Relaxed) {
        return None;
    }
    TID.with(|t| t.get())
}

pub(crate) fn current_worker() -> Option<usize> {
    current_tid().filter(|&t| t < EXT_BASE)
}

pub(crate) fn num_workers() -> Option<usize> {
    if !ACTIVE.load(Ordering::Relaxed) {
        return None;
    }
    lock().as_ref().map(|s| s.n)
}

fn fatal(sim: &mut Sim, msg: String) -> ! {
    // A stall / budget overrun / replay divergence is a harness error, never a verdict.
    eprintln!("SIM-ERROR: {msg}");
    eprintln!("  seed={} workers={} strategy={:?} steps={}", sim.cfg.seed, sim.n, sim.cfg.strategy, sim.stats.steps);
    let tail: Vec<String> = sim.log.iter().rev().take(12).rev().map(Report::describe).collect();
    eprintln!("  last decisions: {}", tail.join("; "));
    std::process::exit(2);
}

impl Sim {
    fn enabled(&mut self) {
        let acts = &mut self.scratch;
        acts.clear();
        let n = self.n;
        let all = 0..MAX_THREADS;
        // 1. resume
        for t in all.clone() {
            if matches!(self.status[t], St::AtPoint) {
                acts.push(Act { kind: 0, t, v: 0 });
            }
        }
        let non_spin = acts.len();
        // 2. wake
        for t in all.clone() {
            if let St::Wait(l, _) = self.status[t] {
                if l.is_set() {
                    acts.push(Act { kind: 1, t, v: 0 });
                }
            }
        }
        if self.workers_started {
            let can_work = |s: &St| match s {
                St::Idle => true,
                St::Wait(l, true) => !l.is_set(),
                _ => false,
            };
            // 3. pop own
            for w in 0..n {
                if can_work(&self.status[w]) && !self.deques[w].is_empty() {
                    acts.push(Act { kind: 2, t: w, v: 0 });
                }
            }
            // 4. steal
            for w in 0..n {
                if can_work(&self.status[w]) && self.deques[w].is_empty() {
                    for v in 0..n {
                        if v != w && !self.deques[v].is_empty() {
                            acts.push(Act { kind: 3, t: w, v });
                        }
                    }
                }
            }
            // 5. take injected
            if !self.injector.is_empty() {
                for w in 0..n {
                    if can_work(&self.status[w]) && self.deques[w].is_empty() {
                        acts.push(Act { kind: 4, t: w, v: 0 });
                    }
                }
            }
        }
        // 1b. a thread spinning on a lock is resumed only if NOTHING else can move (the holder of the
        // lock is at a point, or waits for jobs that others can still run), so that a spinner can
        // never starve it - whatever the strategy
        let _ = non_spin;
        if acts.is_empty() {
            // nothing else can move (no thread at a point, no wake, no job to pop / steal / take)
            for t in 0..MAX_THREADS {
                if matches!(self.status[t], St::Spin) {
                    acts.push(Act { kind: 0, t, v: 0 });
                }
            }
            if acts.is_empty() {
                self.spin_streak = 0;
            } else {
                self.spin_streak = self.spin_streak.saturating_add(1);
            }
        } else {
            self.spin_streak = 0;
        }
        // 6. finish: the scenario thread may leave once the pool has drained
        for t in all {
            if matches!(self.status[t], St::Drain) {
                let drained = self.injector.is_empty()
                    && self.deques.iter().all(|d| d.is_empty())
                    && (0..n).all(|w| matches!(self.status[w], St::Idle | St::Absent));
                if drained {
                    acts.push(Act { kind: 5, t, v: 0 });
                }
            }
        }
    }

    fn choose(&mut self) -> usize {
        let acts = &self.scratch;
        let n = acts.len();
        if let Some(rep) = &self.cfg.replay {
            if self.replay_pos < rep.len() {
                let c = rep[self.replay_pos] as usize;
                self.replay_pos += 1;
                if c >= n {
                    let m = format!("replay divergence at step {}: recorded choice {} but only {} actions enabled", self.stats.steps, c, n);
                    fatal(self, m);
                }
                return c;
            }
            // past the end of a (possibly truncated) recording: continue sequentially
            return self.first_non_steal().unwrap_or(0);
        }
        if n == 1 {
            return 0;
        }
        match self.cfg.strategy {
            Strategy::Sequential => self.first_non_steal().unwrap_or(0),
            Strategy::Uniform => self.rng.below(n),
            Strategy::StealEager => {
                let st: Vec<usize> = (0..n).filter(|&i| matches!(self.scratch[i].kind, 3 | 4)).collect();
                if st.is_empty() {
                    self.rng.below(n)
                } else {
                    st[self.rng.below(st.len())]
                }
            }
            Strategy::StealRare(p) => {
                let non: Vec<usize> = (0..n).filter(|&i| !matches!(self.scratch[i].kind, 3 | 4)).collect();
                if non.is_empty() || (self.rng.next() & 0xff) < p as u64 {
                    self.rng.below(n)
                } else {
                    non[self.rng.below(non.len())]
                }
            }
            Strategy::Pct(_) => {
                if self.pct_points.contains(&self.stats.steps) {
                    // demote the currently highest-priority enabled actor
                    if let Some(top) = (0..n).map(|i| self.scratch[i].t).max_by_key(|&t| self.prio[t]) {
                        self.pct_low = self.pct_low.saturating_sub(1);
                        self.prio[top] = self.pct_low;
                    }
                }
                let best = (0..n).map(|i| self.prio[self.scratch[i].t]).max().unwrap();
                let c: Vec<usize> = (0..n).filter(|&i| self.prio[self.scratch[i].t] == best).collect();
                c[self.rng.below(c.len())]
            }
        }
    }

    fn first_non_steal(&self) -> Option<usize> {
        (0..self.scratch.len()).find(|&i| !matches!(self.scratch[i].kind, 3 | 4))
    }

    /// Picks and applies the next action; sets `turn` and the actor's assignment.
    fn dispatch(&mut self) {
        self.enabled();
        if self.scratch.is_empty() {
            let m = "stall: no action enabled while work is outstanding".to_string();
            fatal(self, m);
        }
        if self.stats.steps >= self.cfg.step_budget {
            let m = format!("step budget {} exceeded", self.cfg.step_budget);
            fatal(self, m);
        }
        let n = self.scratch.len();
        let c = self.choose();
        let a = self.scratch[c];
        self.stats.steps += 1;
        self.log.push(Decision { n_enabled: n as u32, chosen: c as u32, kind: a.kind, actor: a.t as u8, victim: a.v as u8 });
        let asg = match a.kind {
            0 => {
                self.stats.resumes += 1;
                Assignment::Resume
            }
            1 => {
                self.stats.wakes += 1;
                Assignment::Wake
            }
            2 => {
                self.stats.pops += 1;
                Assignment::Run(self.deques[a.t].pop_back().unwrap())
            }
            3 => {
                self.stats.steals += 1;
                Assignment::Run(self.deques[a.v].pop_front().unwrap())
            }
            4 => {
                self.stats.took_injected += 1;
                Assignment::Run(self.injector.pop_front().unwrap())
            }
            _ => Assignment::Resume,
        };
        if let Assignment::Run(_) = asg {
            self.stats.jobs_via_ref += 1;
            if !self.ran_jobs[a.t] {
                self.ran_jobs[a.t] = true;
                self.stats.workers_that_ran_jobs += 1;
            }
        }
        self.status[a.t] = St::Running;
        self.assign[a.t] = Some(asg);
        self.turn = a.t;
        TURN.store(a.t, Ordering::SeqCst);
    }
}

/// Hands the baton to whoever the scheduler picks and blocks until it is this thread's turn.
fn yield_with(me: usize, mut g: MutexGuard<'static, Option<Sim>>, st: St) -> Assignment {
    {
        let sim = g.as_mut().expect("simulation active");
        sim.status[me] = st;
        sim.dispatch();
        let t = sim.turn;
        if t != me {
            CVS[t].notify_one();
        }
    }
    wait_turn(me, g)
}

fn wait_turn(me: usize, mut g: MutexGuard<'static, Option<Sim>>) -> Assignment {
    loop {
        {
            let sim = g.as_mut().expect("simulation active");
            if sim.turn == me {
                if let Some(a) = sim.assign[me].take() {
                    return a;
                }
            }
        }
        g = match CVS[me].wait(g) {
            Ok(g) => g,
            Err(p) => p.into_inner(),
        };
    }
}

// ---------------------------------------------------------------------------------------------
// operations used by the API layer
// ---------------------------------------------------------------------------------------------

/// push on the caller's own deque (worker) or the injector (external), then a scheduling point
pub(crate) fn push_and_point(me: usize, job: JobRef, kind: PushKind) {
    let mut g = lock();
    {
        let sim = g.as_mut().expect("simulation active");
        match kind {
            PushKind::Join => sim.stats.joins += 1,
            PushKind::ScopeSpawn => sim.stats.scope_spawns += 1,
            PushKind::Detached => sim.stats.detached_spawns += 1,
        }
        if me < EXT_BASE {
            sim.deques[me].push_back(job);
            let l = sim.deques[me].len() as u64;
            if l > sim.stats.max_deque {
                sim.stats.max_deque = l;
            }
        } else {
            sim.injector.push_back(job);
            sim.stats.injected += 1;
        }
    }
    match yield_with(me, g, St::AtPoint) {
        Assignment::Resume => {}
        _ => unreachable!("sim invariant: a thread at a point can only be resumed"),
    }
}

/// Is the calling OS thread the simulated thread that currently holds the baton, in a run with
/// atomic points switched on?  (lock-free: used on the way into the kernel)
pub fn is_baton_holder() -> bool {
    if !ATOMIC_ON.load(Ordering::Relaxed) {
        return false;
    }
    match current_tid() {
        Some(me) => TURN.load(Ordering::SeqCst) == me,
        None => false,
    }
}

/// Does `addr` lie inside the simulator's own synchronisation objects (its futex words must
/// really block)?
pub fn owns_address(addr: usize) -> bool {
    let inside = |p: usize, n: usize| addr >= p && addr < p + n;
    inside(&SIM as *const _ as usize, std::mem::size_of_val(&SIM))
        || inside(&CVS as *const _ as usize, std::mem::size_of_val(&CVS))
        || inside(&CV_SPAWN as *const _ as usize, std::mem::size_of_val(&CV_SPAWN))
        || inside(&HANDLES as *const _ as usize, std::mem::size_of_val(&HANDLES))
}

/// Atomic-granular tier: called (through the instrumentation runtime of the harness) before every
/// atomic operation of instrumented code.  On a simulated thread of a run with `atomic_rate > 0`
/// this is a scheduling point inside a job: if some other action is enabled, the baton is
/// offered with the configured probability.
pub fn preempt_point() {
    let Some(me) = current_tid() else { return };
    let mut g = lock();
    {
        let Some(sim) = g.as_mut() else { return };
        if sim.cfg.atomic_rate == 0 || !matches!(sim.status[me], St::Running) || sim.turn != me {
            return;
        }
        sim.stats.atomic_ops += 1;
        // the sequential strategy never pre-empts; and a run offers the baton at most 50 000 times
        // inside jobs (code that performs millions of atomic operations must not exhaust the step budget)
        if matches!(sim.cfg.strategy, Strategy::Sequential) || sim.stats.atomic_points >= 50_000 {
            return;
        }
        if (sim.arng.next() & 0xff) >= sim.cfg.atomic_rate as u64 {
            return;
        }
        // is there anything else that could move?  (otherwise nothing is logged)
        sim.status[me] = St::AtPoint;
        sim.enabled();
        sim.status[me] = St::Running;
        if sim.scratch.len() <= 1 {
            return;
        }
        sim.stats.atomic_points += 1;
    }
    match yield_with(me, g, St::AtPoint) {
        Assignment::Resume => {}
        _ => unreachable!("sim invariant: a thread at a point can only be resumed"),
    }
}

/// Atomic-granular tier: the current simulated thread is about to block in the kernel (futex
/// wait) on something only another simulated thread can release.  It yields instead; the caller
/// returns to its retry loop.  Returns false if the thread is not part of a simulation (the
/// caller must then really block).
pub fn blocked_point() -> bool {
    let Some(me) = current_tid() else { return false };
    let mut g = lock();
    {
        let Some(sim) = g.as_mut() else { return false };
        if !(sim.cfg.atomic_rate > 0 || sim.cfg.yield_on_block) || !matches!(sim.status[me], St::Running) || sim.turn != me {
            return false;
        }
        // nobody but spinning threads has been able to move for a long time: the lock they wait for will
        // never be released (a deadlock of the code under test, e.g. a lock taken again by the thread
        // that holds it).  Let the caller block for real: the per-run watchdog reports the run.
        if sim.spin_streak > 20_000 {
            return false;
        }
        sim.stats.blocked_points += 1;
    }
    match yield_with(me, g, St::Spin) {
        Assignment::Resume => {}
        _ => unreachable!("sim invariant: a spinning thread can only be resumed"),
    }
    true
}

pub(crate) enum PushKind {
    Join,
    ScopeSpawn,
    Detached,
}

pub(crate) fn pop_local(me: usize) -> Option<JobRef> {
    let mut g = lock();
    g.as_mut().expect("simulation active").deques[me].pop_back()
}

pub(crate) fn note_inline_b() {
    let mut g = lock();
    if let Some(s) = g.as_mut() {
        s.stats.inline_b += 1;
    }
}

/// Worker `me` waits for `latch`, running popped / stolen / injected jobs meanwhile
/// (`WorkerThread::wait_until_cold`).
pub(crate) fn wait_until(me: usize, latch: &AtomicBool) {
    loop {
        if latch.load(Ordering::SeqCst) {
            return;
        }
        let g = lock();
        match yield_with(me, g, St::Wait(LatchPtr(latch), true)) {
            Assignment::Wake => {
                debug_assert!(latch.load(Ordering::SeqCst));
                return;
            }
            Assignment::Run(job) => unsafe { job.execute() },
            _ => unreachable!("sim invariant: unexpected assignment in wait_until"),
        }
    }
}

/// External thread `me` blocks on `latch` (it cannot run pool jobs).
pub(crate) fn wait_external(me: usize, latch: &AtomicBool) {
    if latch.load(Ordering::SeqCst) {
        return;
    }
    let g = lock();
    match yield_with(me, g, St::Wait(LatchPtr(latch), false)) {
        Assignment::Wake => {}
        _ => unreachable!("sim invariant: an external waiter can only be woken"),
    }
}

/// Injects a job from external thread `me` and blocks until `latch` is set.
pub(crate) fn inject_and_wait(me: usize, job: JobRef, latch: &AtomicBool) {
    ensure_workers();
    let mut g = lock();
    {
        let sim = g.as_mut().expect("simulation active");
        sim.injector.push_back(job);
        sim.stats.injected += 1;
    }
    match yield_with(me, g, St::Wait(LatchPtr(latch), false)) {
        Assignment::Wake => {}
        _ => unreachable!("sim invariant: an external waiter can only be woken"),
    }
}

/// Creates the N worker threads, one after the other, each parked before the next is created
/// (so that even thread start-up is serialised).  Lazy: called at the first entry into the pool,
/// like the real global registry.
pub(crate) fn ensure_workers() {
    let (n, stack, hook, wrap) = {
        let mut g = lock();
        let sim = g.as_mut().expect("simulation active");
        if sim.workers_started {
            return;
        }
        sim.workers_started = true;
        (sim.n, sim.cfg.stack, sim.cfg.thread_start, sim.cfg.thread_wrap)
    };
    for i in 0..n {
        let h = std::thread::Builder::new()
            .name(format!("simW{i}"))
            .stack_size(if wrap.is_some() { 256 << 10 } else { stack })
            .spawn(move || {
                if let Some(h) = hook {
                    h();
                }
                call_wrapped(wrap, i, move || worker_main(i, None))
            })
            .expect("spawn simulated worker");
        let mut g = lock();
        loop {
            if g.as_ref().unwrap().started_ack > i {
                break;
            }
            g = CV_SPAWN.wait(g).unwrap_or_else(|p| p.into_inner());
        }
        g.as_mut().unwrap().stats.workers_started += 1;
        drop(g);
        HANDLES.lock().unwrap_or_else(|p| p.into_inner()).push(h);
    }
}

static HANDLES: Mutex<Vec<std::thread::JoinHandle<()>>> = Mutex::new(Vec::new());

fn call_wrapped(wrap: Option<fn(usize, &mut dyn FnMut())>, tid: usize, f: impl FnOnce()) {
    match wrap {
        None => f(),
        Some(w) => {
            let mut once = Some(f);
            let mut body = || {
                if let Some(f) = once.take() {
                    f()
                }
            };
            w(tid, &mut body);
            assert!(once.is_none(), "thread_wrap must call the body");
        }
    }
}

fn worker_main(i: usize, hook: Option<fn()>) {
    if let Some(h) = hook {
        h();
    }
    TID.with(|t| t.set(Some(i)));
    let mut a = {
        let mut g = lock();
        {
            let sim = g.as_mut().expect("simulation active");
            sim.status[i] = St::Idle;
            sim.started_ack = i + 1;
        }
        CV_SPAWN.notify_all();
        wait_turn(i, g)
    };
    loop {
        match a {
            Assignment::Run(job) => {
                unsafe { job.execute() };
                let g = lock();
                a = yield_with(i, g, St::Idle);
            }
            Assignment::Terminate => break,
            _ => unreachable!("sim invariant: idle worker got a resume/wake"),
        }
    }
    TID.with(|t| t.set(None));
}

// ---------------------------------------------------------------------------------------------
// running one simulation
// ---------------------------------------------------------------------------------------------

/// Runs `f` on a fresh scenario thread (external caller X0) under a fresh simulated pool.
/// Returns `f`'s result (or its panic payload) and the report.  Strictly one simulation at a
/// time per process.
pub fn run<R: Send>(cfg: Config, f: impl FnOnce() -> R + Send) -> (std::thread::Result<R>, Report) {
    let (mut rs, report) = run_multi(cfg, vec![f]);
    (rs.pop().unwrap(), report)
}

/// Like `run`, with several external caller threads X0..Xk-1 (one closure each) that use the one
/// simulated pool concurrently; which caller moves is a scheduler decision like any other.
pub fn run_multi<R: Send, F: FnOnce() -> R + Send>(cfg: Config, fs: Vec<F>) -> (Vec<std::thread::Result<R>>, Report) {
    assert!(cfg.workers >= 1 && cfg.workers <= MAX_WORKERS);
    assert!(!fs.is_empty() && fs.len() <= MAX_THREADS - EXT_BASE);
    assert!(!ACTIVE.load(Ordering::SeqCst), "one simulation at a time");
    let k = fs.len();
    let n = cfg.workers;
    let stack = cfg.stack;
    let hook = cfg.thread_start;
    let wrap = cfg.thread_wrap;
    let mut rng = Rng(cfg.seed ^ 0x5DEECE66D);
    let arng = Rng(cfg.seed ^ 0xA70_31C_5EED);
    let mut prio = [0u32; MAX_THREADS];
    for p in prio.iter_mut() {
        *p = 1000 + (rng.next() % 1_000_000) as u32;
    }
    let mut pct_points = vec![];
    if let Strategy::Pct(d) = cfg.strategy {
        for _ in 0..d {
            pct_points.push(rng.next() % cfg.pct_horizon.max(1) as u64);
        }
    }
    NEXT_JOB_ID.store(1, Ordering::SeqCst);
    let mut status = [St::Absent; MAX_THREADS];
    if k == 1 {
        status[EXT_BASE] = St::Running;
    } else {
        for x in 0..k {
            status[EXT_BASE + x] = St::AtPoint;
        }
    }
    ATOMIC_ON.store(cfg.atomic_rate > 0 || cfg.yield_on_block, Ordering::SeqCst);
    TURN.store(EXT_BASE, Ordering::SeqCst);
    *lock() = Some(Sim {
        cfg,
        arng,
        rng,
        n,
        workers_started: false,
        deques: (0..n).map(|_| VecDeque::new()).collect(),
        injector: VecDeque::new(),
        status,
        assign: (0..MAX_THREADS).map(|_| None).collect(),
        turn: EXT_BASE,
        log: Vec::new(),
        replay_pos: 0,
        stats: Stats::default(),
        ran_jobs: [false; MAX_WORKERS],
        error: None,
        prio,
        pct_points,
        pct_low: 999,
        started_ack: 0,
        scratch: Vec::with_capacity(64),
        spin_streak: 0,
    });
    ACTIVE.store(true, Ordering::SeqCst);
    let results = std::thread::scope(|s| {
        let hs: Vec<_> = fs
            .into_iter()
            .enumerate()
            .map(|(x, f)| {
                let me = EXT_BASE + x;
                std::thread::Builder::new()
                    .name(format!("simX{x}"))
                    .stack_size(if wrap.is_some() { 256 << 10 } else { stack })
                    .spawn_scoped(s, move || {
                        if let Some(h) = hook {
                            h();
                        }
                        let mut out = None;
                        call_wrapped(wrap, me, || out = Some((|| {
                        TID.with(|t| t.set(Some(me)));
                        if k > 1 {
                            // several callers: wait to be scheduled for the first time
                            match wait_turn(me, lock()) {
                                Assignment::Resume => {}
                                _ => unreachable!(),
                            }
                        }
                        let r = catch_unwind(AssertUnwindSafe(f));
                        // drain detached work, then leave
                        let started = lock().as_ref().unwrap().workers_started;
                        if started || k > 1 {
                            let g = lock();
                            match yield_with(me, g, St::Drain) {
                                Assignment::Resume => {}
                                _ => unreachable!(),
                            }
                        }
                        leave(me);
                        TID.with(|t| t.set(None));
                        r
                        })()));
                        out.expect("body ran")
                    })
                    .expect("spawn scenario thread")
            })
            .collect();
        if k > 1 {
            // the first decision: which caller starts
            let mut g = lock();
            let sim = g.as_mut().unwrap();
            sim.turn = usize::MAX;
            sim.dispatch();
            let t = sim.turn;
            drop(g);
            CVS[t].notify_one();
        }
        hs.into_iter().map(|h| h.join().unwrap_or_else(Err)).collect::<Vec<_>>()
    });
    // shut the workers down (all are idle and parked)
    {
        let mut g = lock();
        let sim = g.as_mut().unwrap();
        if sim.workers_started {
            for w in 0..n {
                sim.assign[w] = Some(Assignment::Terminate);
            }
        }
    }
    let hs: Vec<_> = std::mem::take(&mut *HANDLES.lock().unwrap_or_else(|p| p.into_inner()));
    for (w, h) in hs.into_iter().enumerate() {
        {
            let mut g = lock();
            g.as_mut().unwrap().turn = w;
        }
        CVS[w].notify_one();
        let _ = h.join();
    }
    ACTIVE.store(false, Ordering::SeqCst);
    ATOMIC_ON.store(false, Ordering::SeqCst);
    let sim = lock().take().unwrap();
    let report = Report { decisions: sim.log, stats: sim.stats, error: sim.error };
    (results, report)
}

/// An external caller leaves the simulation: it hands the baton on (without waiting for it to
/// come back) if anybody else can still move.
fn leave(me: usize) {
    let mut g = lock();
    let sim = g.as_mut().expect("simulation active");
    sim.status[me] = St::Done;
    sim.enabled();
    if sim.scratch.is_empty() {
        let others = (EXT_BASE..MAX_THREADS).any(|t| !matches!(sim.status[t], St::Absent | St::Done));
        if others {
            let m = "stall: a caller left while another caller can never move again".to_string();
            fatal(sim, m);
        }
        return;
    }
    sim.dispatch();
    let t = sim.turn;
    drop(g);
    CVS[t].notify_one();
}
