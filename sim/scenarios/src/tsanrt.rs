//! Minimal replacement for the ThreadSanitizer runtime: the compiler pass (`-Zsanitizer=thread`)
//! turns every atomic operation of an instrumented crate into a call of one of these functions.
//! Each performs the operation (sequentially consistent) after offering a scheduling point.
use std::sync::atomic::{AtomicU16, AtomicU32, AtomicU64, AtomicU8, Ordering::SeqCst};

#[inline(always)]
fn point() {
    crate::atomic_point();
}


#[no_mangle] pub unsafe extern "C" fn __tsan_atomic8_load(p: *const u8, _mo: i32) -> u8 { point(); (*(p as *const AtomicU8)).load(SeqCst) }
#[no_mangle] pub unsafe extern "C" fn __tsan_atomic8_store(p: *mut u8, v: u8, _mo: i32) { point(); (*(p as *const AtomicU8)).store(v, SeqCst) }
#[no_mangle] pub unsafe extern "C" fn __tsan_atomic8_exchange(p: *mut u8, v: u8, _mo: i32) -> u8 { point(); (*(p as *const AtomicU8)).swap(v, SeqCst) }
#[no_mangle] pub unsafe extern "C" fn __tsan_atomic8_fetch_add(p: *mut u8, v: u8, _mo: i32) -> u8 { point(); (*(p as *const AtomicU8)).fetch_add(v, SeqCst) }
#[no_mangle] pub unsafe extern "C" fn __tsan_atomic8_fetch_sub(p: *mut u8, v: u8, _mo: i32) -> u8 { point(); (*(p as *const AtomicU8)).fetch_sub(v, SeqCst) }
#[no_mangle] pub unsafe extern "C" fn __tsan_atomic8_fetch_and(p: *mut u8, v: u8, _mo: i32) -> u8 { point(); (*(p as *const AtomicU8)).fetch_and(v, SeqCst) }
#[no_mangle] pub unsafe extern "C" fn __tsan_atomic8_fetch_or(p: *mut u8, v: u8, _mo: i32) -> u8 { point(); (*(p as *const AtomicU8)).fetch_or(v, SeqCst) }
#[no_mangle] pub unsafe extern "C" fn __tsan_atomic8_fetch_xor(p: *mut u8, v: u8, _mo: i32) -> u8 { point(); (*(p as *const AtomicU8)).fetch_xor(v, SeqCst) }
#[no_mangle] pub unsafe extern "C" fn __tsan_atomic8_fetch_nand(p: *mut u8, v: u8, _mo: i32) -> u8 { point(); (*(p as *const AtomicU8)).fetch_nand(v, SeqCst) }
#[no_mangle] pub unsafe extern "C" fn __tsan_atomic8_compare_exchange_strong(p: *mut u8, c: *mut u8, v: u8, _mo: i32, _fmo: i32) -> i32 {
    point();
    match (*(p as *const AtomicU8)).compare_exchange(*c, v, SeqCst, SeqCst) { Ok(_) => 1, Err(cur) => { *c = cur; 0 } }
}
#[no_mangle] pub unsafe extern "C" fn __tsan_atomic8_compare_exchange_weak(p: *mut u8, c: *mut u8, v: u8, mo: i32, fmo: i32) -> i32 { __tsan_atomic8_compare_exchange_strong(p, c, v, mo, fmo) }
#[no_mangle] pub unsafe extern "C" fn __tsan_atomic8_compare_exchange_val(p: *mut u8, c: u8, v: u8, _mo: i32, _fmo: i32) -> u8 {
    point();
    match (*(p as *const AtomicU8)).compare_exchange(c, v, SeqCst, SeqCst) { Ok(x) => x, Err(x) => x }
}

#[no_mangle] pub unsafe extern "C" fn __tsan_atomic16_load(p: *const u16, _mo: i32) -> u16 { point(); (*(p as *const AtomicU16)).load(SeqCst) }
#[no_mangle] pub unsafe extern "C" fn __tsan_atomic16_store(p: *mut u16, v: u16, _mo: i32) { point(); (*(p as *const AtomicU16)).store(v, SeqCst) }
#[no_mangle] pub unsafe extern "C" fn __tsan_atomic16_exchange(p: *mut u16, v: u16, _mo: i32) -> u16 { point(); (*(p as *const AtomicU16)).swap(v, SeqCst) }
#[no_mangle] pub unsafe extern "C" fn __tsan_atomic16_fetch_add(p: *mut u16, v: u16, _mo: i32) -> u16 { point(); (*(p as *const AtomicU16)).fetch_add(v, SeqCst) }
#[no_mangle] pub unsafe extern "C" fn __tsan_atomic16_fetch_sub(p: *mut u16, v: u16, _mo: i32) -> u16 { point(); (*(p as *const AtomicU16)).fetch_sub(v, SeqCst) }
#[no_mangle] pub unsafe extern "C" fn __tsan_atomic16_fetch_and(p: *mut u16, v: u16, _mo: i32) -> u16 { point(); (*(p as *const AtomicU16)).fetch_and(v, SeqCst) }
#[no_mangle] pub unsafe extern "C" fn __tsan_atomic16_fetch_or(p: *mut u16, v: u16, _mo: i32) -> u16 { point(); (*(p as *const AtomicU16)).fetch_or(v, SeqCst) }
#[no_mangle] pub unsafe extern "C" fn __tsan_atomic16_fetch_xor(p: *mut u16, v: u16, _mo: i32) -> u16 { point(); (*(p as *const AtomicU16)).fetch_xor(v, SeqCst) }
#[no_mangle] pub unsafe extern "C" fn __tsan_atomic16_fetch_nand(p: *mut u16, v: u16, _mo: i32) -> u16 { point(); (*(p as *const AtomicU16)).fetch_nand(v, SeqCst) }
#[no_mangle] pub unsafe extern "C" fn __tsan_atomic16_compare_exchange_strong(p: *mut u16, c: *mut u16, v: u16, _mo: i32, _fmo: i32) -> i32 {
    point();
    match (*(p as *const AtomicU16)).compare_exchange(*c, v, SeqCst, SeqCst) { Ok(_) => 1, Err(cur) => { *c = cur; 0 } }
}
#[no_mangle] pub unsafe extern "C" fn __tsan_atomic16_compare_exchange_weak(p: *mut u16, c: *mut u16, v: u16, mo: i32, fmo: i32) -> i32 { __tsan_atomic16_compare_exchange_strong(p, c, v, mo, fmo) }
#[no_mangle] pub unsafe extern "C" fn __tsan_atomic16_compare_exchange_val(p: *mut u16, c: u16, v: u16, _mo: i32, _fmo: i32) -> u16 {
    point();
    match (*(p as *const AtomicU16)).compare_exchange(c, v, SeqCst, SeqCst) { Ok(x) => x, Err(x) => x }
}

#[no_mangle] pub unsafe extern "C" fn __tsan_atomic32_load(p: *const u32, _mo: i32) -> u32 { point(); (*(p as *const AtomicU32)).load(SeqCst) }
#[no_mangle] pub unsafe extern "C" fn __tsan_atomic32_store(p: *mut u32, v: u32, _mo: i32) { point(); (*(p as *const AtomicU32)).store(v, SeqCst) }
#[no_mangle] pub unsafe extern "C" fn __tsan_atomic32_exchange(p: *mut u32, v: u32, _mo: i32) -> u32 { point(); (*(p as *const AtomicU32)).swap(v, SeqCst) }
#[no_mangle] pub unsafe extern "C" fn __tsan_atomic32_fetch_add(p: *mut u32, v: u32, _mo: i32) -> u32 { point(); (*(p as *const AtomicU32)).fetch_add(v, SeqCst) }
#[no_mangle] pub unsafe extern "C" fn __tsan_atomic32_fetch_sub(p: *mut u32, v: u32, _mo: i32) -> u32 { point(); (*(p as *const AtomicU32)).fetch_sub(v, SeqCst) }
#[no_mangle] pub unsafe extern "C" fn __tsan_atomic32_fetch_and(p: *mut u32, v: u32, _mo: i32) -> u32 { point(); (*(p as *const AtomicU32)).fetch_and(v, SeqCst) }
#[no_mangle] pub unsafe extern "C" fn __tsan_atomic32_fetch_or(p: *mut u32, v: u32, _mo: i32) -> u32 { point(); (*(p as *const AtomicU32)).fetch_or(v, SeqCst) }
#[no_mangle] pub unsafe extern "C" fn __tsan_atomic32_fetch_xor(p: *mut u32, v: u32, _mo: i32) -> u32 { point(); (*(p as *const AtomicU32)).fetch_xor(v, SeqCst) }
#[no_mangle] pub unsafe extern "C" fn __tsan_atomic32_fetch_nand(p: *mut u32, v: u32, _mo: i32) -> u32 { point(); (*(p as *const AtomicU32)).fetch_nand(v, SeqCst) }
#[no_mangle] pub unsafe extern "C" fn __tsan_atomic32_compare_exchange_strong(p: *mut u32, c: *mut u32, v: u32, _mo: i32, _fmo: i32) -> i32 {
    point();
    match (*(p as *const AtomicU32)).compare_exchange(*c, v, SeqCst, SeqCst) { Ok(_) => 1, Err(cur) => { *c = cur; 0 } }
}
#[no_mangle] pub unsafe extern "C" fn __tsan_atomic32_compare_exchange_weak(p: *mut u32, c: *mut u32, v: u32, mo: i32, fmo: i32) -> i32 { __tsan_atomic32_compare_exchange_strong(p, c, v, mo, fmo) }
#[no_mangle] pub unsafe extern "C" fn __tsan_atomic32_compare_exchange_val(p: *mut u32, c: u32, v: u32, _mo: i32, _fmo: i32) -> u32 {
    point();
    match (*(p as *const AtomicU32)).compare_exchange(c, v, SeqCst, SeqCst) { Ok(x) => x, Err(x) => x }
}

#[no_mangle] pub unsafe extern "C" fn __tsan_atomic64_load(p: *const u64, _mo: i32) -> u64 { point(); (*(p as *const AtomicU64)).load(SeqCst) }
#[no_mangle] pub unsafe extern "C" fn __tsan_atomic64_store(p: *mut u64, v: u64, _mo: i32) { point(); (*(p as *const AtomicU64)).store(v, SeqCst) }
#[no_mangle] pub unsafe extern "C" fn __tsan_atomic64_exchange(p: *mut u64, v: u64, _mo: i32) -> u64 { point(); (*(p as *const AtomicU64)).swap(v, SeqCst) }
#[no_mangle] pub unsafe extern "C" fn __tsan_atomic64_fetch_add(p: *mut u64, v: u64, _mo: i32) -> u64 { point(); (*(p as *const AtomicU64)).fetch_add(v, SeqCst) }
#[no_mangle] pub unsafe extern "C" fn __tsan_atomic64_fetch_sub(p: *mut u64, v: u64, _mo: i32) -> u64 { point(); (*(p as *const AtomicU64)).fetch_sub(v, SeqCst) }
#[no_mangle] pub unsafe extern "C" fn __tsan_atomic64_fetch_and(p: *mut u64, v: u64, _mo: i32) -> u64 { point(); (*(p as *const AtomicU64)).fetch_and(v, SeqCst) }
#[no_mangle] pub unsafe extern "C" fn __tsan_atomic64_fetch_or(p: *mut u64, v: u64, _mo: i32) -> u64 { point(); (*(p as *const AtomicU64)).fetch_or(v, SeqCst) }
#[no_mangle] pub unsafe extern "C" fn __tsan_atomic64_fetch_xor(p: *mut u64, v: u64, _mo: i32) -> u64 { point(); (*(p as *const AtomicU64)).fetch_xor(v, SeqCst) }
#[no_mangle] pub unsafe extern "C" fn __tsan_atomic64_fetch_nand(p: *mut u64, v: u64, _mo: i32) -> u64 { point(); (*(p as *const AtomicU64)).fetch_nand(v, SeqCst) }
#[no_mangle] pub unsafe extern "C" fn __tsan_atomic64_compare_exchange_strong(p: *mut u64, c: *mut u64, v: u64, _mo: i32, _fmo: i32) -> i32 {
    point();
    match (*(p as *const AtomicU64)).compare_exchange(*c, v, SeqCst, SeqCst) { Ok(_) => 1, Err(cur) => { *c = cur; 0 } }
}
#[no_mangle] pub unsafe extern "C" fn __tsan_atomic64_compare_exchange_weak(p: *mut u64, c: *mut u64, v: u64, mo: i32, fmo: i32) -> i32 { __tsan_atomic64_compare_exchange_strong(p, c, v, mo, fmo) }
#[no_mangle] pub unsafe extern "C" fn __tsan_atomic64_compare_exchange_val(p: *mut u64, c: u64, v: u64, _mo: i32, _fmo: i32) -> u64 {
    point();
    match (*(p as *const AtomicU64)).compare_exchange(c, v, SeqCst, SeqCst) { Ok(x) => x, Err(x) => x }
}

#[no_mangle] pub extern "C" fn __tsan_atomic_thread_fence(_mo: i32) { std::sync::atomic::fence(SeqCst) }
#[no_mangle] pub extern "C" fn __tsan_atomic_signal_fence(_mo: i32) { std::sync::atomic::compiler_fence(SeqCst) }
#[no_mangle] pub extern "C" fn __tsan_init() {}
#[no_mangle] pub extern "C" fn __tsan_func_entry(_pc: *mut u8) {}
#[no_mangle] pub extern "C" fn __tsan_func_exit() {}
#[no_mangle] pub extern "C" fn __tsan_vptr_update(_a: *mut u8, _b: *mut u8) {}
#[no_mangle] pub extern "C" fn __tsan_vptr_read(_a: *mut u8) {}
#[no_mangle] pub extern "C" fn __tsan_read_range(_a: *mut u8, _n: usize) {}
#[no_mangle] pub extern "C" fn __tsan_write_range(_a: *mut u8, _n: usize) {}

#[no_mangle] pub extern "C" fn __tsan_read1(_a: *mut u8) {}
#[no_mangle] pub extern "C" fn __tsan_read2(_a: *mut u8) {}
#[no_mangle] pub extern "C" fn __tsan_read4(_a: *mut u8) {}
#[no_mangle] pub extern "C" fn __tsan_read8(_a: *mut u8) {}
#[no_mangle] pub extern "C" fn __tsan_read16(_a: *mut u8) {}
#[no_mangle] pub extern "C" fn __tsan_write1(_a: *mut u8) {}
#[no_mangle] pub extern "C" fn __tsan_write2(_a: *mut u8) {}
#[no_mangle] pub extern "C" fn __tsan_write4(_a: *mut u8) {}
#[no_mangle] pub extern "C" fn __tsan_write8(_a: *mut u8) {}
#[no_mangle] pub extern "C" fn __tsan_write16(_a: *mut u8) {}
#[no_mangle] pub extern "C" fn __tsan_unaligned_read2(_a: *mut u8) {}
#[no_mangle] pub extern "C" fn __tsan_unaligned_read4(_a: *mut u8) {}
#[no_mangle] pub extern "C" fn __tsan_unaligned_read8(_a: *mut u8) {}
#[no_mangle] pub extern "C" fn __tsan_unaligned_read16(_a: *mut u8) {}
#[no_mangle] pub extern "C" fn __tsan_unaligned_write2(_a: *mut u8) {}
#[no_mangle] pub extern "C" fn __tsan_unaligned_write4(_a: *mut u8) {}
#[no_mangle] pub extern "C" fn __tsan_unaligned_write8(_a: *mut u8) {}
#[no_mangle] pub extern "C" fn __tsan_unaligned_write16(_a: *mut u8) {}
