#!/bin/bash
# usage: try_mutant_wt.sh <worktree> <property> <demo-package> <seeded-id>
# Like try_mutant.sh, but runs the quick check against the scratch worktree itself
# (VERIF_REPO=<worktree>: the driver builds a rewritten scratch copy of sim/), so /repo is not touched
# and several seeded changes can be tried at the same time.
set -u
WT=$1; PROP=$2; PKG=$3; ID=$4
cd $WT || exit 2
git apply --check -R patch.diff 2>/dev/null || git apply patch.diff || { echo "cannot apply patch"; exit 2; }
echo "== with the change"
cargo test -p geo --lib --offline 2>&1 | grep -E "^test result" | sed 's/^/geo lib: /'
cargo test -p geo-types --lib --offline 2>&1 | grep -E "^test result" | sed 's/^/geo-types lib: /'
cargo test -p jts-test-runner --offline 2>&1 | grep -E "^test result" | head -2 | sed 's/^/jts: /'
cargo test -p $PKG --test demo_break --offline 2>&1 | grep -E "^test result" | tail -1 | sed 's/^/demo WITH change: /'
git apply -R patch.diff
echo "== without the change"
cargo test -p $PKG --test demo_break --offline 2>&1 | grep -E "^test result" | tail -1 | sed 's/^/demo WITHOUT change: /'
git apply patch.diff
echo "== /verif check against the change (VERIF_REPO=$WT)"
cd /verif
export VERIF_REPO=$WT VERIF_SCRATCH=/tmp/vs-$ID
mkdir -p /tmp/replays-$ID
./check $PROP --tier quick > /tmp/try_mutant_$ID.out 2>&1
echo "check exit=$?"
tail -12 /tmp/try_mutant_$ID.out | cut -c1-400
rm -rf /tmp/vs-$ID
mkdir -p seeded/$ID
cp $WT/patch.diff seeded/$ID/patch.diff
cp $WT/demo.rs seeded/$ID/demo.rs 2>/dev/null
cp $WT/REPORT.md seeded/$ID/agent_report.md 2>/dev/null
