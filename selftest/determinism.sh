#!/bin/bash
# Proves that the simulator itself is deterministic (DESIGN.md §2.6): the per-run event log
# (decision-log hash, decisions, key draws, shuffled allocations, outcome digest) of N seeded
# scenarios x (reference + 3 variants) must be byte-identical
#   - between two executions,
#   - between 1, 4 and 16 shard processes (i.e. whatever ran before in the same process),
#   - for several VERIF_SEED values.
# Not registered in MANIFEST.json; exit 0 = deterministic, exit 2 = not.
set -u
cd "$(dirname "$0")/.."
N=${1:-2000}
BIN=${DET_BIN:-sim/target/release/simrun}   # DET_BIN=sim/target-ap/release/simrun: the atomic-granular build
./check --setup >/dev/null 2>&1 || { echo "build failed"; exit 2; }
W=$(mktemp -d /tmp/verif-det.XXXXXX)
trap 'rm -rf "$W"' EXIT
fail=0
for seed in 1 7 123456789; do
  for layout in 1a 1b 4 16; do
    n=${layout%%[ab]}
    d=$W/s$seed-$layout; mkdir -p $d
    for ((i=0;i<n;i++)); do
      ( ulimit -v 8000000; $BIN C20 run --seed $seed --runs $N --shard $i/$n --out $d --replay-dir $d --eventlog 1 --recheck-every 0 >/dev/null 2>$d/err$i ) &
    done
    wait
    cat $d/C20-shard*.events | sort -k1,1n -k2,2 > $d/all.events
    echo "seed=$seed layout=$layout lines=$(wc -l < $d/all.events) md5=$(md5sum < $d/all.events | cut -c1-12)"
  done
  for layout in 1b 4 16; do
    if ! cmp -s $W/s$seed-1a/all.events $W/s$seed-$layout/all.events; then
      echo "NONDETERMINISTIC: seed=$seed layout 1a vs $layout"; diff $W/s$seed-1a/all.events $W/s$seed-$layout/all.events | head -5; fail=1
    fi
  done
done
if [ $fail = 0 ]; then echo "determinism: OK"; exit 0; else exit 2; fi
