//! Seeded input families for the `sched` engine.  Inputs are *workload*: the search is over the
//! configuration and schedule space, not over inputs.  Families with validity preconditions are
//! valid by construction (see the resource hazard note in DESIGN.md §1.3-12).

use geo_types::{Coord, Line, LineString, MultiLineString, MultiPoint, MultiPolygon, Point, Polygon};
use serde::{Deserialize, Serialize};
use simkit::Rng;

#[derive(Serialize, Deserialize, Clone, Debug, PartialEq)]
pub struct InputSpec {
    pub family: String,
    pub size: usize,
    pub seed: u64,
}

#[derive(Clone)]
pub struct Input {
    pub a: MultiPolygon<f64>,
    pub b: MultiPolygon<f64>,
    pub mls: MultiLineString<f64>,
    pub pts: MultiPoint<f64>,
    pub lines: Vec<Line<f64>>,
    /// members of `a` are simple, mutually non-overlapping (disjoint or nested in holes)
    pub a_valid: bool,
    pub segments: usize,
}

pub const FAMILIES: &[&str] = &["rects", "lattice", "circles", "combs", "starholes", "blobs", "tiles", "donuts", "archipelago", "cloud", "segs", "mantissa"];

fn c(x: f64, y: f64) -> Coord<f64> {
    Coord { x, y }
}

fn rect(x0: f64, y0: f64, x1: f64, y1: f64) -> Polygon<f64> {
    Polygon::new(LineString::new(vec![c(x0, y0), c(x1, y0), c(x1, y1), c(x0, y1), c(x0, y0)]), vec![])
}

fn ngon(cx: f64, cy: f64, r: f64, n: usize, phase: f64) -> LineString<f64> {
    let mut v: Vec<Coord<f64>> = (0..n)
        .map(|k| {
            let a = phase + (k as f64) * std::f64::consts::TAU / (n as f64);
            c(cx + r * a.cos(), cy + r * a.sin())
        })
        .collect();
    v.push(v[0]);
    LineString::new(v)
}

/// star-shaped ring: radius varies per vertex, so it is simple by construction
fn star_ring(rng: &mut Rng, cx: f64, cy: f64, rmin: f64, rmax: f64, n: usize, grid: Option<f64>) -> LineString<f64> {
    let mut v: Vec<Coord<f64>> = (0..n)
        .map(|k| {
            let a = (k as f64) * std::f64::consts::TAU / (n as f64);
            let r = rmin + (rmax - rmin) * rng.unit();
            let (mut x, mut y) = (cx + r * a.cos(), cy + r * a.sin());
            if let Some(g) = grid {
                x = (x / g).round() * g;
                y = (y / g).round() * g;
            }
            c(x, y)
        })
        .collect();
    v.dedup();
    if v.len() > 1 && v[0] == v[v.len() - 1] {
        v.pop();
    }
    let f = v[0];
    v.push(f);
    LineString::new(v)
}

fn segments_of(mp: &MultiPolygon<f64>) -> usize {
    mp.0.iter().map(|p| p.exterior().0.len().saturating_sub(1) + p.interiors().iter().map(|r| r.0.len().saturating_sub(1)).sum::<usize>()).sum()
}

fn polyline(rng: &mut Rng, n: usize, span: f64, grid: bool) -> LineString<f64> {
    LineString::new(
        (0..n)
            .map(|_| if grid { c(rng.range(0, span as i64) as f64, rng.range(0, span as i64) as f64) } else { c(rng.unit() * span, rng.unit() * span) })
            .collect(),
    )
}

/// An input that a caller could pass by mistake: the family's ordinary input with one kind of
/// damage.  Used only as the *earlier call* of a history ("@bad" prefix): the call under test may
/// legitimately fail or panic on it, and what it leaves behind on the thread must not change the
/// next result.  Family syntax: `bad<kind>:<family>`.
pub fn corrupted(i: &Input, kind: u8, seed: u64) -> Input {
    let mut rng = Rng::stream(seed, "c20-corrupt");
    let mut o = i.clone();
    let damage_mp = |m: &MultiPolygon<f64>, rng: &mut Rng| -> MultiPolygon<f64> {
        MultiPolygon::new(
            m.0.iter()
                .enumerate()
                .map(|(k, p)| {
                    let ext = p.exterior().clone();
                    let mut ints: Vec<LineString<f64>> = p.interiors().to_vec();
                    let e0 = ext.0.first().copied().unwrap_or(Coord { x: 0.0, y: 0.0 });
                    let e1 = ext.0.get(1).copied().unwrap_or(Coord { x: 1.0, y: 0.0 });
                    match kind {
                        // a hole ring of fewer than four coordinates (two distinct points, closed by the constructor)
                        0 => {
                            ints.push(LineString::new(vec![Coord { x: (e0.x + e1.x) / 2.0, y: (e0.y + e1.y) / 2.0 + 0.25 }, Coord { x: (e0.x + e1.x) / 2.0 + 0.25, y: (e0.y + e1.y) / 2.0 + 0.5 }]));
                            Polygon::new(ext, ints)
                        }
                        // an empty hole before the others / an empty exterior with holes kept
                        1 => {
                            ints.insert(0, LineString::new(vec![]));
                            if k % 2 == 1 {
                                Polygon::new(LineString::new(vec![]), ints)
                            } else {
                                Polygon::new(ext, ints)
                            }
                        }
                        // a not-a-number coordinate in the middle of the exterior
                        2 => {
                            let mut e = ext.0.clone();
                            if e.len() > 2 {
                                let at = 1 + rng.below(e.len() - 2);
                                e[at].x = f64::NAN;
                            }
                            Polygon::new(LineString::new(e), ints)
                        }
                        // a bow-tie: two neighbouring vertices swapped
                        3 => {
                            let mut e = ext.0.clone();
                            if e.len() > 4 {
                                let at = 1 + rng.below(e.len() - 3);
                                e.swap(at, at + 1);
                            }
                            Polygon::new(LineString::new(e), ints)
                        }
                        // every coordinate the same point / a spike
                        4 => Polygon::new(LineString::new(vec![e0; ext.0.len().max(4)]), ints),
                        // an infinite coordinate
                        _ => {
                            let mut e = ext.0.clone();
                            if e.len() > 2 {
                                e[1].y = f64::INFINITY;
                            }
                            Polygon::new(LineString::new(e), ints)
                        }
                    }
                })
                .collect(),
        )
    };
    o.a = damage_mp(&i.a, &mut rng);
    o.b = damage_mp(&i.b, &mut rng);
    match kind {
        2 | 5 => {
            if let Some(l) = o.lines.get_mut(0) {
                l.end.x = if kind == 2 { f64::NAN } else { f64::INFINITY };
            }
            if let Some(p) = o.pts.0.get_mut(0) {
                *p = Point::new(if kind == 2 { f64::NAN } else { f64::NEG_INFINITY }, p.y());
            }
            if let Some(l) = o.mls.0.get_mut(0) {
                if let Some(c) = l.0.get_mut(0) {
                    c.y = f64::NAN;
                }
            }
        }
        4 => {
            let p0 = o.pts.0.first().copied().unwrap_or(Point::new(0.0, 0.0));
            o.pts = MultiPoint::new(vec![p0; o.pts.0.len()]);
            o.lines = o.lines.iter().map(|l| Line::new(l.start, l.start)).collect();
            o.mls = MultiLineString::new(o.mls.0.iter().map(|l| LineString::new(vec![l.0.first().copied().unwrap_or(Coord { x: 0.0, y: 0.0 }); l.0.len()])).collect());
        }
        1 => {
            o.mls.0.insert(0, LineString::new(vec![]));
            o.pts = MultiPoint::new(vec![]);
        }
        0 => {
            o.mls.0.push(LineString::new(vec![Coord { x: 0.5, y: 0.5 }]));
            o.lines.truncate(1);
        }
        _ => {}
    }
    o.a_valid = false;
    o
}

pub fn build(spec: &InputSpec) -> Input {
    if let Some(rest) = spec.family.strip_prefix("bad") {
        if let Some((k, fam)) = rest.split_once(':') {
            let base = build(&InputSpec { family: fam.to_string(), size: spec.size, seed: spec.seed });
            return corrupted(&base, k.parse().unwrap_or(0), spec.seed);
        }
    }
    let mut rng = Rng::stream(spec.seed, "c20-input");
    let n = spec.size.max(1);
    let mut a_valid = false;
    let (a, b): (MultiPolygon<f64>, MultiPolygon<f64>) = match spec.family.as_str() {
        "rects" => {
            // random axis-parallel rectangles on a small integer grid: shared edges, shared
            // corners, identical members, overlaps
            let span = 4 + (n as i64) / 2;
            let mut mk = |rng: &mut Rng| {
                MultiPolygon::new(
                    (0..n)
                        .map(|_| {
                            let x0 = rng.range(0, span - 1);
                            let y0 = rng.range(0, span - 1);
                            let w = rng.range(1, 3);
                            let h = rng.range(1, 3);
                            rect(x0 as f64, y0 as f64, (x0 + w) as f64, (y0 + h) as f64)
                        })
                        .collect(),
                )
            };
            let a = mk(&mut rng);
            let b = if rng.chance(1, 8) { a.clone() } else { mk(&mut rng) };
            (a, b)
        }
        "lattice" => {
            // k x k squares of side 0.6 at unit pitch, against the same lattice shifted
            let k = n;
            let (sx, sy) = (0.5, 1.0 / 3.0);
            let mk = |dx: f64, dy: f64| {
                MultiPolygon::new((0..k * k).map(|i| rect((i % k) as f64 + dx, (i / k) as f64 + dy, (i % k) as f64 + dx + 0.6, (i / k) as f64 + dy + 0.6)).collect())
            };
            a_valid = true;
            (mk(0.0, 0.0), mk(sx, sy))
        }
        "circles" => {
            let r = 100.0;
            let off = r * (0.1 + 0.8 * rng.unit());
            a_valid = true;
            (
                MultiPolygon::new(vec![Polygon::new(ngon(0.0, 0.0, r, n.max(3), 0.0), vec![])]),
                MultiPolygon::new(vec![Polygon::new(ngon(off, off * 0.37, r, n.max(3), 0.1), vec![])]),
            )
        }
        "combs" => {
            // comb with n teeth on integer columns against a horizontal comb: many vertical
            // segments exactly on column borders
            let teeth = n.max(1);
            let mut v = vec![c(0.0, 0.0)];
            for t in 0..teeth {
                let x = (2 * t) as f64;
                v.extend([c(x, 10.0), c(x + 1.0, 10.0), c(x + 1.0, 1.0), c(x + 2.0, 1.0)]);
            }
            v.extend([c((2 * teeth) as f64, 0.0), c(0.0, 0.0)]);
            let a = MultiPolygon::new(vec![Polygon::new(LineString::new(v), vec![])]);
            // the horizontal comb has few teeth, so crossings stay linear in `teeth`
            let hteeth = teeth.min(6);
            let mut w = vec![c(-1.0, 2.0)];
            for t in 0..hteeth {
                let y = 2.0 + (t as f64) * 8.0 / (hteeth as f64);
                let h = 4.0 / (hteeth as f64);
                w.extend([c((2 * teeth) as f64 + 1.0, y), c((2 * teeth) as f64 + 1.0, y + h), c(0.5, y + h), c(0.5, y + 2.0 * h)]);
            }
            w.extend([c(-1.0, 11.0), c(-1.0, 2.0)]);
            let b = MultiPolygon::new(vec![Polygon::new(LineString::new(w), vec![])]);
            a_valid = true;
            (a, b)
        }
        "starholes" => {
            // star-shaped shells with a star-shaped hole strictly inside; float or gridded
            // snapping to a grid is only star-shape preserving for few vertices
            let grid = if n <= 30 && rng.chance(1, 2) { Some(0.5) } else { None };
            let mut mk = |rng: &mut Rng, cx: f64, cy: f64| {
                let m = 5 + rng.below(n.max(1) + 3);
                let shell = star_ring(rng, cx, cy, 6.0, 10.0, m, grid);
                let hn = 3 + rng.below(6);
                let hole = star_ring(rng, cx, cy, 1.0, 3.0, hn, grid);
                Polygon::new(shell, if rng.chance(2, 3) { vec![hole] } else { vec![] })
            };
            let a = MultiPolygon::new(vec![mk(&mut rng, 0.0, 0.0)]);
            let (dx, dy) = (rng.range(-8, 8) as f64, rng.range(-8, 8) as f64);
            let b = MultiPolygon::new(vec![mk(&mut rng, dx, dy)]);
            a_valid = true;
            (a, b)
        }
        "blobs" => {
            // n separate small polygons on a coarse grid of cells (disjoint), some with a hole
            // that contains another polygon (nesting), some touching at a corner
            let cols = ((n as f64).sqrt().ceil() as usize).max(1);
            let mut ps = vec![];
            for i in 0..n {
                let (cx, cy) = ((i % cols) as f64 * 12.0, (i / cols) as f64 * 12.0);
                match rng.below(5) {
                    0 => ps.push(rect(cx, cy, cx + 1.0, cy + 1.0)),
                    1 => {
                        let shell = LineString::new(vec![c(cx, cy), c(cx + 10.0, cy), c(cx + 10.0, cy + 10.0), c(cx, cy + 10.0), c(cx, cy)]);
                        let hole = LineString::new(vec![c(cx + 2.0, cy + 2.0), c(cx + 2.0, cy + 8.0), c(cx + 8.0, cy + 8.0), c(cx + 8.0, cy + 2.0), c(cx + 2.0, cy + 2.0)]);
                        ps.push(Polygon::new(shell, vec![hole]));
                        ps.push(rect(cx + 4.0, cy + 4.0, cx + 6.0, cy + 6.0));
                    }
                    2 => {
                        ps.push(rect(cx, cy, cx + 5.0, cy + 5.0));
                        ps.push(rect(cx + 5.0, cy + 5.0, cx + 9.0, cy + 9.0));
                    }
                    3 => {
                        let m = 5 + rng.below(8);
                        ps.push(Polygon::new(star_ring(&mut rng, cx + 5.0, cy + 5.0, 2.0, 4.5, m, None), vec![]))
                    }
                    _ => ps.push(Polygon::new(LineString::new(vec![c(cx, cy), c(cx + 7.0, cy + 1.0), c(cx + 3.0, cy + 8.0), c(cx, cy)]), vec![])),
                }
            }
            let b = MultiPolygon::new(vec![rect(3.0, 3.0, cols as f64 * 12.0 - 5.0, ((n + cols - 1) / cols) as f64 * 12.0 - 5.0)]);
            a_valid = true;
            (MultiPolygon::new(ps), b)
        }
        "tiles" => {
            // a tiling: members share whole edges and corners (adjacent parcels), some tiles are
            // missing (holes in the tiling), one tile may be split into two triangles
            let k = n.max(1);
            let mut ps = vec![];
            for i in 0..k * k {
                let (x, y) = ((i % k) as f64, (i / k) as f64);
                match rng.below(8) {
                    0 => {}
                    1 => {
                        ps.push(Polygon::new(LineString::new(vec![c(x, y), c(x + 1.0, y), c(x + 1.0, y + 1.0), c(x, y)]), vec![]));
                        ps.push(Polygon::new(LineString::new(vec![c(x, y), c(x + 1.0, y + 1.0), c(x, y + 1.0), c(x, y)]), vec![]));
                    }
                    _ => ps.push(rect(x, y, x + 1.0, y + 1.0)),
                }
            }
            if ps.is_empty() {
                ps.push(rect(0.0, 0.0, 1.0, 1.0));
            }
            let b = MultiPolygon::new(vec![rect(0.5, 0.5, k as f64 - 0.25, k as f64 + 0.5), rect(k as f64 - 0.25, 0.0, k as f64 + 1.0, 1.0)]);
            (MultiPolygon::new(ps), b)
        }
        "donuts" => {
            // n disjoint polygons, each with one hole (counter-clockwise shells, clockwise holes,
            // non-dyadic coordinates); the first one has a many-vertex outline
            let cols = ((n as f64).sqrt().ceil() as usize).max(1);
            let mut ps = vec![];
            for i in 0..n {
                let (cx, cy) = ((i % cols) as f64 * 3.3 + 0.1, (i / cols) as f64 * 3.3 + 0.7);
                let shell = if i == 0 { ngon(cx, cy, 1.4, 200 + n, 0.05) } else { ngon(cx, cy, 1.4, 4 + i % 5, 0.3) };
                let mut hole = ngon(cx, cy, 0.5, 3 + i % 4, 0.1);
                hole.0.reverse();
                ps.push(Polygon::new(shell, vec![hole]));
            }
            let b = MultiPolygon::new(vec![rect(1.0, 1.0, cols as f64 * 3.3 - 1.0, cols as f64 * 1.7)]);
            a_valid = true;
            (MultiPolygon::new(ps), b)
        }
        "archipelago" => {
            // very uneven members: a few many-vertex "mainlands" among many small islands, the
            // big ones at seeded positions of the member list
            let mut ps: Vec<Polygon<f64>> = (0..n).map(|i| Polygon::new(ngon((i % 40) as f64 * 5.0, (i / 40) as f64 * 5.0, 1.0 + rng.unit(), 3 + i % 6, rng.unit()), vec![])).collect();
            for _ in 0..1 + rng.below(4) {
                let at = rng.below(ps.len());
                let big = 300 + rng.below(1500);
                ps[at] = Polygon::new(ngon((at % 40) as f64 * 5.0, (at / 40) as f64 * 5.0, 2.0, big, 0.0), vec![]);
            }
            let b = MultiPolygon::new(vec![rect(2.0, 2.0, 150.0, 9.0)]);
            a_valid = true;
            (MultiPolygon::new(ps), b)
        }
        "mantissa" => {
            // many small triangles with uniform 53-bit doubles: sums are not exactly
            // representable, so a re-associated fold changes bits
            let mk = |rng: &mut Rng| {
                MultiPolygon::new(
                    (0..n)
                        .map(|_| {
                            let (x, y) = (rng.unit() * 1000.0, rng.unit() * 1000.0);
                            Polygon::new(LineString::new(vec![c(x, y), c(x + rng.unit(), y + rng.unit() * 0.1), c(x + rng.unit() * 0.1, y + rng.unit()), c(x, y)]), vec![])
                        })
                        .collect(),
                )
            };
            (mk(&mut rng), mk(&mut rng))
        }
        // "cloud" and "segs" are about points / segments; give them a small polygon pair too
        _ => (MultiPolygon::new(vec![rect(0.0, 0.0, 4.0, 4.0)]), MultiPolygon::new(vec![rect(2.0, 2.0, 6.0, 6.0)])),
    };
    // polylines
    let mls = {
        let k = 1 + rng.below(4);
        let (span, grid) = match spec.family.as_str() {
            "lattice" => (n as f64, false),
            "circles" => (200.0, false),
            "combs" => (2.0 * n as f64 + 2.0, true),
            "rects" => (4.0 + n as f64 / 2.0, true),
            "mantissa" => (1000.0, false),
            _ => (12.0, rng.chance(1, 2)),
        };
        MultiLineString::new(
            (0..k)
                .map(|_| {
                    let m = 2 + rng.below(n.min(40) + 3);
                    polyline(&mut rng, m, span, grid)
                })
                .collect(),
        )
    };
    // points
    let pts: MultiPoint<f64> = match spec.family.as_str() {
        "cloud" => {
            // small grid with duplicates and ties (optionally clipped to a flat-topped hexagon, a
            // disc or a diamond: flat hull edges and symmetric candidates), or full floats
            let grid = rng.chance(2, 3);
            let span = 3 + (n as f64).sqrt() as i64;
            let shape = rng.below(4);
            let inside = |x: i64, y: i64| -> bool {
                let (cx, cy, r) = (span as f64 / 2.0, span as f64 / 2.0, span as f64 / 2.0);
                let (dx, dy) = ((x as f64 - cx).abs(), (y as f64 - cy).abs());
                match shape {
                    1 => dy <= r * 0.8 && dx <= r - dy * 0.5, // flat-topped hexagon
                    2 => dx * dx + dy * dy <= r * r,           // disc
                    3 => dx + dy <= r,                         // diamond
                    _ => true,
                }
            };
            MultiPoint::new(
                (0..n.max(3))
                    .map(|_| {
                        if grid {
                            loop {
                                let (x, y) = (rng.range(0, span), rng.range(0, span));
                                if inside(x, y) {
                                    break Point::new(x as f64, y as f64);
                                }
                            }
                        } else {
                            Point::new(rng.unit() * 50.0, rng.unit() * 50.0)
                        }
                    })
                    .collect(),
            )
        }
        "mantissa" => MultiPoint::new((0..n).map(|_| Point::new(rng.unit() * 1000.0, rng.unit() * 1000.0)).collect()),
        _ => {
            let mut v: Vec<Point<f64>> = a.0.iter().flat_map(|p| p.exterior().0.iter().map(|c| Point(*c))).take(400).collect();
            if v.len() < 3 {
                v.extend([Point::new(0.0, 0.0), Point::new(1.0, 0.0), Point::new(0.0, 1.0)]);
            }
            MultiPoint::new(v)
        }
    };
    // segments (for the sweep): duplicates, collinear overlaps, shared endpoints
    let lines: Vec<Line<f64>> = match spec.family.as_str() {
        "segs" => {
            let span = 3 + (n as i64) / 3;
            let mut v: Vec<Line<f64>> = vec![];
            for _ in 0..n.max(2) {
                let l = match rng.below(6) {
                    0 if !v.is_empty() => *rng.pick(&v),
                    1 if !v.is_empty() => {
                        let p = *rng.pick(&v);
                        Line::new(p.end, p.start)
                    }
                    2 => {
                        let y = rng.range(0, span) as f64;
                        Line::new(c(rng.range(0, span) as f64, y), c(rng.range(0, span) as f64, y))
                    }
                    _ => Line::new(c(rng.range(0, span) as f64, rng.range(0, span) as f64), c(rng.range(0, span) as f64, rng.range(0, span) as f64)),
                };
                v.push(l);
            }
            v
        }
        _ => a.0.iter().flat_map(|p| p.exterior().lines()).take(60).collect(),
    };
    let segments = segments_of(&a) + segments_of(&b);
    Input { a, b, mls, pts, lines, a_valid, segments }
}

/// Picks family and size for a scenario.  `large` = shipped-configuration family sizes (the
/// overlay engine's own thresholds: > 8000 segments for the fragment path, > 32768 elements for
/// the parallel sort).
/// "Threshold sweep": sizes just above the powers of two at which code typically switches to a
/// parallel, indexed or chunked path (64, 128, 256, 512, 1024, 2048 members / vertices / points).
pub fn sweep_size(rng: &mut Rng, family: &str) -> Option<usize> {
    let pick = |rng: &mut Rng, xs: &[usize]| *rng.pick(xs);
    Some(match family {
        "rects" => pick(rng, &[40, 70, 130, 260]),
        "lattice" => pick(rng, &[8, 9, 12, 16, 23]), // 64, 81, 144, 256, 529 squares
        "circles" => pick(rng, &[70, 130, 260, 520, 1030, 2100, 4200, 8300]),
        "combs" => pick(rng, &[20, 40, 70, 130]),
        "starholes" => pick(rng, &[70, 130, 260, 520]),
        "blobs" => pick(rng, &[40, 70, 130, 260]),
        "tiles" => pick(rng, &[8, 9, 12, 16]),
        "cloud" => pick(rng, &[70, 130, 260, 520, 1030, 2100]),
        "segs" => pick(rng, &[20, 40, 70]),
        _ => return None,
    })
}

pub fn gen_spec(rng: &mut Rng, family: &str, large: u8) -> InputSpec {
    if large == 0 && rng.chance(1, 8) {
        if let Some(size) = sweep_size(rng, family) {
            return InputSpec { family: family.to_string(), size, seed: rng.next_u64() };
        }
    }
    let size = match (family, large) {
        ("lattice", 0) => 1 + rng.below(5),
        ("lattice", 1) => 33 + rng.below(16),  // 2*4*k^2 = 8.7k .. 18k segments
        ("lattice", _) => 66 + rng.below(30), // 35k .. 73k segments
        ("circles", 0) => 3 + rng.below(40),
        ("circles", 1) => 4100 + rng.below(4000),
        ("circles", _) => 17000 + rng.below(8000),
        ("combs", 0) => 1 + rng.below(8),
        ("combs", 1) => 2050 + rng.below(1200), // 4 segments per tooth
        ("combs", _) => 8400 + rng.below(3000),
        ("rects", _) => 1 + rng.below(14),
        ("starholes", _) => 1 + rng.below(30),
        ("tiles", _) => 1 + rng.below(6),
        ("donuts", _) => *rng.pick(&[2usize, 5, 20, 70, 130, 260, 300, 520]),
        ("archipelago", _) => *rng.pick(&[3usize, 10, 40, 96, 130, 260, 520]),
        ("blobs", _) => 1 + rng.below(20),
        ("cloud", _) => {
            if rng.chance(1, 3) {
                120 + rng.below(400)
            } else {
                3 + rng.below(120)
            }
        }
        ("segs", _) => 2 + rng.below(14),
        ("mantissa", _) => *rng.pick(&[10usize, 100, 1000, 5000]),
        _ => 4,
    };
    InputSpec { family: family.to_string(), size, seed: rng.next_u64() }
}


/// The same geometries with every ring / line string / point list reversed: identical structure
/// (lengths, bounding boxes), different coordinate order.
pub fn reversed(i: &Input) -> Input {
    let rev_ls = |l: &LineString<f64>| LineString::new(l.0.iter().rev().copied().collect());
    let rev_mp = |m: &MultiPolygon<f64>| MultiPolygon::new(m.0.iter().map(|p| Polygon::new(rev_ls(p.exterior()), p.interiors().iter().map(rev_ls).collect())).collect());
    Input {
        a: rev_mp(&i.a),
        b: rev_mp(&i.b),
        mls: MultiLineString::new(i.mls.0.iter().map(rev_ls).collect()),
        pts: MultiPoint::new(i.pts.0.iter().rev().copied().collect()),
        lines: i.lines.iter().rev().map(|l| Line::new(l.end, l.start)).collect(),
        a_valid: i.a_valid,
        segments: i.segments,
    }
}

/// An equal input in another REPRESENTATION: the same coordinates in the same order, but every
/// buffer re-allocated with a seeded amount of spare capacity (or none at all).  Equality of
/// geometries does not see capacity, so results must not either.
pub fn respared(i: &Input, seed: u64) -> Input {
    let mut rng = Rng::stream(seed, "c20-respare");
    fn spare<T: Clone>(v: &[T], rng: &mut Rng) -> Vec<T> {
        let extra = match rng.below(4) {
            0 => 0,
            1 => 1 + rng.below(7),
            2 => v.len() + rng.below(9),
            _ => 64 + rng.below(960),
        };
        let mut o = Vec::with_capacity(v.len() + extra);
        o.extend_from_slice(v);
        o
    }
    let ls = |l: &LineString<f64>, rng: &mut Rng| LineString::new(spare(&l.0, rng));
    let mp = |m: &MultiPolygon<f64>, rng: &mut Rng| {
        let polys: Vec<Polygon<f64>> = m.0.iter().map(|p| {
            let ints: Vec<LineString<f64>> = p.interiors().iter().map(|r| ls(r, rng)).collect();
            Polygon::new(ls(p.exterior(), rng), spare(&ints, rng))
        }).collect();
        MultiPolygon::new(spare(&polys, rng))
    };
    let a = mp(&i.a, &mut rng);
    let b = mp(&i.b, &mut rng);
    let lss: Vec<LineString<f64>> = i.mls.0.iter().map(|l| ls(l, &mut rng)).collect();
    Input { a, b, mls: MultiLineString::new(spare(&lss, &mut rng)), pts: MultiPoint::new(spare(&i.pts.0, &mut rng)), lines: spare(&i.lines, &mut rng), a_valid: i.a_valid, segments: i.segments }
}

/// Overwrites the coordinates of `dst` with those of `src` IN PLACE (same structure required):
/// every buffer keeps its address, only the contents change.  Returns false if the structures differ.
pub fn overwrite_in_place(dst: &mut Input, src: &Input) -> bool {
    fn same_mp(a: &MultiPolygon<f64>, b: &MultiPolygon<f64>) -> bool {
        a.0.len() == b.0.len()
            && a.0.iter().zip(&b.0).all(|(p, q)| p.exterior().0.len() == q.exterior().0.len() && p.interiors().len() == q.interiors().len() && p.interiors().iter().zip(q.interiors()).all(|(r, s)| r.0.len() == s.0.len()))
    }
    if !same_mp(&dst.a, &src.a) || !same_mp(&dst.b, &src.b) || dst.mls.0.len() != src.mls.0.len() || dst.mls.0.iter().zip(&src.mls.0).any(|(l, m)| l.0.len() != m.0.len()) || dst.pts.0.len() != src.pts.0.len() || dst.lines.len() != src.lines.len() {
        return false;
    }
    fn copy_mp(d: &mut MultiPolygon<f64>, s: &MultiPolygon<f64>) {
        for (p, q) in d.0.iter_mut().zip(&s.0) {
            p.exterior_mut(|e| e.0.copy_from_slice(&q.exterior().0));
            p.interiors_mut(|is| {
                for (r, t) in is.iter_mut().zip(q.interiors()) {
                    r.0.copy_from_slice(&t.0)
                }
            });
        }
    }
    copy_mp(&mut dst.a, &src.a);
    copy_mp(&mut dst.b, &src.b);
    for (l, m) in dst.mls.0.iter_mut().zip(&src.mls.0) {
        l.0.copy_from_slice(&m.0);
    }
    dst.pts.0.copy_from_slice(&src.pts.0);
    dst.lines.copy_from_slice(&src.lines);
    true
}
