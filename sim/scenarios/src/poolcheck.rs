//! Smoke / determinism checks of the simulated pool itself (not registered in MANIFEST):
//! the real rayon iterators on top of the stub must return the sequential results under every
//! schedule, the same seed must give the same decision log, and a recorded log must replay.

use rayon::prelude::*;
use rayon_core::sim::{self, Config, Strategy};

fn work(n: usize) -> (u64, Vec<u32>, Vec<u32>) {
    let v: Vec<u32> = (0..n as u32).map(|i| i.wrapping_mul(2654435761) % 1000).collect();
    let s: u64 = v.par_iter().map(|&x| x as u64).sum();
    let c: Vec<u32> = v.par_iter().map(|&x| x + 1).collect();
    let mut t = v.clone();
    t.par_sort_unstable();
    (s, c, t)
}

pub fn run() -> i32 {
    let n = 50_000;
    let (want, _) = sim::run(Config::default(), || work(n));
    let want = want.unwrap();
    let mut bad = 0;
    for (workers, strat) in [
        (1, Strategy::Sequential),
        (4, Strategy::Sequential),
        (4, Strategy::Uniform),
        (4, Strategy::StealEager),
        (16, Strategy::StealEager),
        (16, Strategy::Uniform),
        (8, Strategy::StealRare(32)),
        (8, Strategy::Pct(3)),
        (2, Strategy::Uniform),
    ] {
        for seed in 0..3u64 {
            let cfg = Config { workers, strategy: strat, seed, ..Config::default() };
            let t0 = std::time::Instant::now();
            let (got, rep) = sim::run(cfg.clone(), || work(n));
            let dt = t0.elapsed();
            let got = got.unwrap();
            let (got2, rep2) = sim::run(cfg.clone(), || work(n));
            let same_log = rep.log_hash() == rep2.log_hash() && rep.decisions.len() == rep2.decisions.len();
            // replay under a different seed and strategy
            let rcfg = Config { workers, strategy: Strategy::Uniform, seed: seed + 77, replay: Some(rep.chosen()), ..Config::default() };
            let (got3, rep3) = sim::run(rcfg, || work(n));
            let replay_ok = rep3.log_hash() == rep.log_hash();
            let ok = got == want && got2.unwrap() == want && got3.unwrap() == want && same_log && replay_ok;
            if !ok {
                bad += 1;
            }
            if seed == 0 || !ok {
                println!(
                    "workers={:2} {:?} seed={} steps={} joins={} steals={} pops={} inline_b={} injected={} wakes={} workers_ran={} {:?} ok={} same_log={} replay_ok={}",
                    workers, strat, seed, rep.stats.steps, rep.stats.joins, rep.stats.steals, rep.stats.pops, rep.stats.inline_b,
                    rep.stats.injected, rep.stats.wakes, rep.stats.workers_that_ran_jobs, dt, ok, same_log, replay_ok
                );
            }
        }
    }
    // scopes, spawns, nested installs, panics through join
    let cfg = Config { workers: 4, strategy: Strategy::Uniform, seed: 5, ..Config::default() };
    let (r, rep) = sim::run(cfg, || {
        let mut out = vec![0u32; 8];
        rayon::scope(|s| {
            for (i, o) in out.iter_mut().enumerate() {
                s.spawn(move |_| *o = i as u32 * 3);
            }
        });
        let pool = rayon::ThreadPoolBuilder::new().num_threads(3).build().unwrap();
        let inner: u32 = pool.install(|| (0..100u32).into_par_iter().sum());
        let p = std::panic::catch_unwind(|| rayon::join(|| 1, || panic!("boom")));
        (out, inner, p.is_err(), rayon::current_num_threads())
    });
    println!("scope/install/panic: {:?} steps={} scope_spawns={}", r, rep.stats.steps, rep.stats.scope_spawns);
    let (out, inner, perr, nt) = r.unwrap();
    if out != vec![0, 3, 6, 9, 12, 15, 18, 21] || inner != 4950 || !perr || nt != 4 {
        bad += 1;
    }
    // outside a simulation everything is inline
    let s: u64 = (0..1000u64).into_par_iter().sum();
    if s != 499500 {
        bad += 1;
    }
    // S5 / S6: simulated threads see the simulated clock and CPU count during a run; the harness
    // thread and threads outside a run see the real ones
    let real_cpus = std::thread::available_parallelism().map(|n| n.get()).unwrap_or(0);
    let mut env_log = vec![];
    for (clock_seed, cpus) in [(0u64, 0usize), (3, 5), (4, 16), (5, 64), (3, 5)] {
        crate::seams::begin_env(clock_seed, cpus);
        let cfg = Config { workers: 3, strategy: Strategy::Uniform, seed: 9, thread_start: Some(crate::seams::mark_sim_thread), ..Config::default() };
        let (r, _) = sim::run(cfg, || {
            let t0 = std::time::Instant::now();
            let w0 = std::time::SystemTime::now();
            let parts: Vec<(u128, usize)> = (0..64u32)
                .into_par_iter()
                .map(|_| (t0.elapsed().as_nanos(), std::thread::available_parallelism().map(|n| n.get()).unwrap_or(0)))
                .collect();
            let since = w0.duration_since(std::time::UNIX_EPOCH).map(|d| d.as_secs()).unwrap_or(0);
            (parts, since)
        });
        let harness_cpus = std::thread::available_parallelism().map(|n| n.get()).unwrap_or(0);
        let st = crate::seams::env_stats();
        crate::seams::end_env();
        let (parts, since) = r.unwrap();
        let want_cpus = cpus.max(1).min(real_cpus.max(1).max(cpus.max(1)));
        let cpus_seen: std::collections::BTreeSet<usize> = parts.iter().map(|p| p.1).collect();
        let last = parts.last().unwrap().0;
        println!("env clock_seed={} cpus={}: cpus_seen={:?} harness_cpus={} elapsed_last={}ns wall_secs={} reads={} jumps={} queries={}", clock_seed, cpus, cpus_seen, harness_cpus, last, since, st.clock_reads, st.clock_jumps, st.cpu_queries);
        // (a cgroup CPU quota below the simulated count would cap it; there is none here)
        if cpus_seen.len() != 1 || *cpus_seen.iter().next().unwrap() > want_cpus || harness_cpus != real_cpus || st.clock_reads != 66 || st.cpu_queries != 64 {
            bad += 1;
        }
        if clock_seed == 0 && (parts.iter().map(|p| p.0).max() != Some(65) || since != 1_000_000_000) {
            bad += 1;
        }
        env_log.push((clock_seed, cpus, parts, since));
    }
    // the same seeds give the same readings
    if env_log[1] != env_log[4] || env_log[1].2 == env_log[2].2 {
        bad += 1;
    }
    // S9: simulated threads see the simulated environment variables and process id
    {
        let names = ["PATH", "HOME", "RAYON_NUM_THREADS", "GEO_DEBUG", "LANG", "OMP_NUM_THREADS", "GEO_PARALLEL_THRESHOLD", "TZ"];
        let mut seen = vec![];
        for (seed, workers) in [(0u64, 3usize), (21, 3), (22, 5), (21, 3)] {
            crate::seams::begin_env(0, 0);
            crate::seams::set_envvar_seed(seed, workers);
            let cfg = Config { workers, strategy: Strategy::Uniform, seed: 9, thread_start: Some(crate::seams::mark_sim_thread), ..Config::default() };
            let (r, _) = sim::run(cfg, move || {
                let vals: Vec<Option<String>> = names.iter().map(|n| std::env::var(n).ok()).collect();
                let on_workers: Vec<(Option<String>, u32)> = (0..8u32).into_par_iter().map(|_| (std::env::var("RAYON_NUM_THREADS").ok(), std::process::id())).collect();
                (vals, on_workers, std::process::id())
            });
            let harness_path = std::env::var("PATH").ok();
            let harness_pid = std::process::id();
            let st = crate::seams::envvar_stats();
            crate::seams::end_env();
            let (vals, on_workers, pid) = r.unwrap();
            println!("envvars seed={} workers={}: {:?} pid={} reads={} pid_reads={}", seed, workers, vals, pid, st.0, st.1);
            let real_pid = unsafe { libc::syscall(libc::SYS_getpid) } as u32;
            if harness_path.is_none() || harness_pid != real_pid || st.0 != 16 || st.1 != 9 || on_workers.iter().any(|w| w.0 != vals[2] || w.1 != pid) {
                bad += 1;
            }
            if seed == 0 && (vals.iter().any(|v| v.is_some()) || pid != 4242) {
                bad += 1;
            }
            if seed != 0 && (vals.iter().all(|v| v.is_none()) || pid == real_pid) {
                bad += 1;
            }
            seen.push((vals, pid));
        }
        if seen[1] != seen[3] || seen[1] == seen[2] {
            bad += 1;
        }
    }
    // S10: a lock held across a rayon call by one external caller while another caller wants it: the
    // second caller's futex wait must become a yield (otherwise it would block while holding the baton)
    {
        static M: std::sync::Mutex<u64> = std::sync::Mutex::new(0);
        for (strategy, seed) in [(Strategy::Uniform, 1u64), (Strategy::Uniform, 2), (Strategy::StealEager, 3), (Strategy::Pct(2), 4), (Strategy::Sequential, 5)] {
            *M.lock().unwrap() = 0;
            let cfg = Config { workers: 3, strategy, seed, yield_on_block: true, thread_start: Some(crate::seams::mark_sim_thread), ..Config::default() };
            let body = || {
                let mut g = M.lock().unwrap();
                let s: u64 = (0..64u64).into_par_iter().map(|x| x * 2).sum();
                *g += s;
                *g
            };
            let (r, rep) = sim::run_multi(cfg, vec![body, body, body]);
            let mut got: Vec<u64> = r.into_iter().map(|x| x.unwrap()).collect();
            got.sort();
            println!("lock across a parallel call, 3 callers, {:?}: {:?} blocked_points={}", strategy, got, rep.stats.blocked_points);
            if got != vec![4032, 8064, 12096] {
                bad += 1;
            }
        }
    }
    // S8: simulated threads run on simulator-placed stacks: the addresses of their locals are a
    // function of the stack seed alone (and lie in the fixed area); a panic crosses the switch
    let mut stack_log = vec![];
    for stack_seed in [0u64, 11, 12, 11] {
        crate::seams::set_stack_seed(stack_seed);
        let cfg = Config { workers: 4, strategy: Strategy::Uniform, seed: 3, thread_start: Some(crate::seams::mark_sim_thread), thread_wrap: Some(crate::seams::on_sim_stack), ..Config::default() };
        let (r, _) = sim::run(cfg, || {
            let here = 0u8;
            let caller = std::hint::black_box(&here) as *const u8 as usize;
            let mut per_thread: Vec<(Option<usize>, usize)> = (0..256u32)
                .into_par_iter()
                .map(|_| {
                    let l = 0u8;
                    (rayon::current_thread_index(), (std::hint::black_box(&l) as *const u8 as usize) >> 20)
                })
                .collect();
            per_thread.sort();
            per_thread.dedup();
            let p = std::panic::catch_unwind(|| rayon::join(|| 1, || panic!("boom on a placed stack"))).is_err();
            (caller, per_thread, p)
        });
        let (caller, per_thread, p) = r.unwrap();
        println!("stack seed={}: caller local at {:#x}, (thread, MiB) pairs {:x?}", stack_seed, caller, &per_thread[..per_thread.len().min(6)]);
        let in_area = |a: usize| (0x2000_0000_0000..0x2000_0000_0000 + 24 * (17 << 20)).contains(&a);
        if !in_area(caller) || !per_thread.iter().all(|(_, mib)| in_area(mib << 20)) || !p {
            bad += 1;
        }
        stack_log.push((caller, per_thread));
    }
    crate::seams::set_stack_seed(0);
    let own = 0u8;
    if (0x2000_0000_0000..0x2100_0000_0000).contains(&(&own as *const u8 as usize)) || crate::seams::stack_stats().1 != 0 || crate::seams::arena_relocated() != 0 {
        bad += 1;
    }
    if stack_log[1] != stack_log[3] || stack_log[1].0 == stack_log[2].0 || stack_log[0].0 == stack_log[1].0 {
        bad += 1;
    }
    println!("poolcheck: {}", if bad == 0 { "OK" } else { "FAILED" });
    if bad == 0 {
        0
    } else {
        2
    }
}
