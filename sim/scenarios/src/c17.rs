//! `hist` engine for C17: seeded histories of uses of long-lived `PreparedGeometry` caches,
//! every answer compared with the stateless path (`Relate::relate` on the plain geometries), and
//! every question re-asked at the end in reverse order.
//!
//! The simulated "durable state" is the cached, interior-mutable geometry graph
//! (`Rc<RefCell<Edge>>`, `Rc<RTree>`) shared by a handle and its clones; the history is what was
//! asked of it before.

use geo::algorithm::{BoundingRect, HasDimensions, Intersects, Relate};
use geo::{PreparedGeometry, Rect};
use geo_types::{
    Coord, Geometry, GeometryCollection, Line, LineString, MultiLineString, MultiPoint, MultiPolygon,
    Point, Polygon, Triangle,
};
use serde::{Deserialize, Serialize};
use simkit::Rng;
use std::collections::BTreeMap;
use std::panic::{catch_unwind, AssertUnwindSafe};

pub type C = (i64, i64);

#[derive(Serialize, Deserialize, Clone, Debug, PartialEq)]
pub enum G {
    Point(C),
    Line(C, C),
    LineString(Vec<C>),
    Polygon(Vec<C>, Vec<Vec<C>>),
    MultiPoint(Vec<C>),
    MultiLineString(Vec<Vec<C>>),
    MultiPolygon(Vec<(Vec<C>, Vec<Vec<C>>)>),
    Rect(C, C),
    Triangle(C, C, C),
    Collection(Vec<G>),
    /// the inner geometry wrapped in the `Geometry` enum
    Enum(Box<G>),
}

fn co(c: &C) -> Coord<f64> {
    Coord { x: c.0 as f64 * 0.5, y: c.1 as f64 * 0.5 }
}
fn ls(cs: &[C]) -> LineString<f64> {
    LineString::new(cs.iter().map(co).collect())
}
fn poly(e: &[C], is: &[Vec<C>]) -> Polygon<f64> {
    Polygon::new(ls(e), is.iter().map(|r| ls(r)).collect())
}

#[derive(Clone, Debug, PartialEq)]
pub enum Plain {
    Point(Point<f64>),
    Line(Line<f64>),
    LineString(LineString<f64>),
    Polygon(Polygon<f64>),
    MultiPoint(MultiPoint<f64>),
    MultiLineString(MultiLineString<f64>),
    MultiPolygon(MultiPolygon<f64>),
    Rect(Rect<f64>),
    Triangle(Triangle<f64>),
    GeometryCollection(GeometryCollection<f64>),
    Geometry(Geometry<f64>),
}

#[derive(Clone)]
#[allow(clippy::large_enum_variant)]
pub enum Prep<'a> {
    Point(PreparedGeometry<'static, Point<f64>, f64>),
    Line(PreparedGeometry<'static, Line<f64>, f64>),
    LineString(PreparedGeometry<'static, LineString<f64>, f64>),
    Polygon(PreparedGeometry<'static, Polygon<f64>, f64>),
    MultiPoint(PreparedGeometry<'static, MultiPoint<f64>, f64>),
    MultiLineString(PreparedGeometry<'static, MultiLineString<f64>, f64>),
    MultiPolygon(PreparedGeometry<'static, MultiPolygon<f64>, f64>),
    Rect(PreparedGeometry<'static, Rect<f64>, f64>),
    Triangle(PreparedGeometry<'static, Triangle<f64>, f64>),
    GeometryCollection(PreparedGeometry<'static, GeometryCollection<f64>, f64>),
    Geometry(PreparedGeometry<'static, Geometry<f64>, f64>),
    PointRef(PreparedGeometry<'a, &'a Point<f64>, f64>),
    LineRef(PreparedGeometry<'a, &'a Line<f64>, f64>),
    LineStringRef(PreparedGeometry<'a, &'a LineString<f64>, f64>),
    PolygonRef(PreparedGeometry<'a, &'a Polygon<f64>, f64>),
    MultiPointRef(PreparedGeometry<'a, &'a MultiPoint<f64>, f64>),
    MultiLineStringRef(PreparedGeometry<'a, &'a MultiLineString<f64>, f64>),
    MultiPolygonRef(PreparedGeometry<'a, &'a MultiPolygon<f64>, f64>),
    RectRef(PreparedGeometry<'a, &'a Rect<f64>, f64>),
    TriangleRef(PreparedGeometry<'a, &'a Triangle<f64>, f64>),
    GeometryCollectionRef(PreparedGeometry<'a, &'a GeometryCollection<f64>, f64>),
    GeometryRef(PreparedGeometry<'a, &'a Geometry<f64>, f64>),
}

macro_rules! with_plain {
    ($p:expr, $x:ident => $body:expr) => {
        match $p {
            Plain::Point($x) => $body,
            Plain::Line($x) => $body,
            Plain::LineString($x) => $body,
            Plain::Polygon($x) => $body,
            Plain::MultiPoint($x) => $body,
            Plain::MultiLineString($x) => $body,
            Plain::MultiPolygon($x) => $body,
            Plain::Rect($x) => $body,
            Plain::Triangle($x) => $body,
            Plain::GeometryCollection($x) => $body,
            Plain::Geometry($x) => $body,
        }
    };
}
macro_rules! with_prep {
    ($p:expr, $x:ident => $body:expr) => {
        match $p {
            Prep::Point($x) => $body,
            Prep::Line($x) => $body,
            Prep::LineString($x) => $body,
            Prep::Polygon($x) => $body,
            Prep::MultiPoint($x) => $body,
            Prep::MultiLineString($x) => $body,
            Prep::MultiPolygon($x) => $body,
            Prep::Rect($x) => $body,
            Prep::Triangle($x) => $body,
            Prep::GeometryCollection($x) => $body,
            Prep::Geometry($x) => $body,
            Prep::PointRef($x) => $body,
            Prep::LineRef($x) => $body,
            Prep::LineStringRef($x) => $body,
            Prep::PolygonRef($x) => $body,
            Prep::MultiPointRef($x) => $body,
            Prep::MultiLineStringRef($x) => $body,
            Prep::MultiPolygonRef($x) => $body,
            Prep::RectRef($x) => $body,
            Prep::TriangleRef($x) => $body,
            Prep::GeometryCollectionRef($x) => $body,
            Prep::GeometryRef($x) => $body,
        }
    };
}

pub fn build(g: &G) -> Plain {
    match g {
        G::Point(c) => Plain::Point(Point(co(c))),
        G::Line(a, b) => Plain::Line(Line::new(co(a), co(b))),
        G::LineString(cs) => Plain::LineString(ls(cs)),
        G::Polygon(e, is) => Plain::Polygon(poly(e, is)),
        G::MultiPoint(cs) => Plain::MultiPoint(MultiPoint::new(cs.iter().map(|c| Point(co(c))).collect())),
        G::MultiLineString(ls_) => Plain::MultiLineString(MultiLineString::new(ls_.iter().map(|l| ls(l)).collect())),
        G::MultiPolygon(ps) => Plain::MultiPolygon(MultiPolygon::new(ps.iter().map(|(e, is)| poly(e, is)).collect())),
        G::Rect(a, b) => Plain::Rect(Rect::new(co(a), co(b))),
        G::Triangle(a, b, c) => Plain::Triangle(Triangle::new(co(a), co(b), co(c))),
        G::Collection(gs) => Plain::GeometryCollection(GeometryCollection::new_from(gs.iter().map(|g| to_geometry(&build(g))).collect())),
        G::Enum(inner) => Plain::Geometry(to_geometry(&build(inner))),
    }
}

pub fn to_geometry(p: &Plain) -> Geometry<f64> {
    match p {
        Plain::Point(x) => Geometry::Point(*x),
        Plain::Line(x) => Geometry::Line(*x),
        Plain::LineString(x) => Geometry::LineString(x.clone()),
        Plain::Polygon(x) => Geometry::Polygon(x.clone()),
        Plain::MultiPoint(x) => Geometry::MultiPoint(x.clone()),
        Plain::MultiLineString(x) => Geometry::MultiLineString(x.clone()),
        Plain::MultiPolygon(x) => Geometry::MultiPolygon(x.clone()),
        Plain::Rect(x) => Geometry::Rect(*x),
        Plain::Triangle(x) => Geometry::Triangle(*x),
        Plain::GeometryCollection(x) => Geometry::GeometryCollection(x.clone()),
        Plain::Geometry(x) => x.clone(),
    }
}

fn prepare<'a>(p: &'a Plain, owned: bool) -> Prep<'a> {
    macro_rules! mk {
        ($x:expr, $o:ident, $b:ident) => {
            if owned {
                Prep::$o(PreparedGeometry::from($x.clone()))
            } else {
                Prep::$b(PreparedGeometry::from($x))
            }
        };
    }
    match p {
        Plain::Point(x) => mk!(x, Point, PointRef),
        Plain::Line(x) => mk!(x, Line, LineRef),
        Plain::LineString(x) => mk!(x, LineString, LineStringRef),
        Plain::Polygon(x) => mk!(x, Polygon, PolygonRef),
        Plain::MultiPoint(x) => mk!(x, MultiPoint, MultiPointRef),
        Plain::MultiLineString(x) => mk!(x, MultiLineString, MultiLineStringRef),
        Plain::MultiPolygon(x) => mk!(x, MultiPolygon, MultiPolygonRef),
        Plain::Rect(x) => mk!(x, Rect, RectRef),
        Plain::Triangle(x) => mk!(x, Triangle, TriangleRef),
        Plain::GeometryCollection(x) => mk!(x, GeometryCollection, GeometryCollectionRef),
        Plain::Geometry(x) => mk!(x, Geometry, GeometryRef),
    }
}

/// operand of one relate call
#[derive(Clone, Copy)]
pub enum Opnd<'x, 'a> {
    Plain(&'x Plain),
    Prep(&'x Prep<'a>),
}

fn relate_rhs<A: Relate<f64>>(a: &A, b: Opnd) -> String {
    let im = match b {
        Opnd::Plain(p) => with_plain!(p, x => a.relate(x)),
        Opnd::Prep(p) => with_prep!(p, x => a.relate(x)),
    };
    format!("{:?}", im)
}

/// The call under test: exactly `a.relate(&b)` on the concrete types.
pub fn relate_dyn(a: Opnd, b: Opnd) -> String {
    match a {
        Opnd::Plain(p) => with_plain!(p, x => relate_rhs(x, b)),
        Opnd::Prep(p) => with_prep!(p, x => relate_rhs(x, b)),
    }
}

fn bbox(p: &Plain) -> Option<Rect<f64>> {
    with_plain!(p, x => x.bounding_rect().into())
}

// ---------------------------------------------------------------------------------------------
// history language
// ---------------------------------------------------------------------------------------------

#[derive(Serialize, Deserialize, Clone, Copy, Debug, PartialEq)]
pub enum Operand {
    Plain(usize),
    Prep(usize),
}

#[derive(Serialize, Deserialize, Clone, Debug, PartialEq)]
pub enum Step {
    Prepare { geom: usize, owned: bool },
    Relate { a: Operand, b: Operand },
    CloneHandle { slot: usize },
    DropHandle { slot: usize },
    Accessors { slot: usize },
}

#[derive(Serialize, Deserialize, Clone, Debug)]
pub struct History {
    pub geoms: Vec<G>,
    pub steps: Vec<Step>,
    pub reask: bool,
}

#[derive(Clone, Debug, Serialize, Deserialize, PartialEq)]
pub struct Violation {
    pub step: usize,
    pub op: String,
    /// "matrix-differs", "panic-differs", "answer-changed", "accessor-differs"
    pub class: String,
    pub detail: String,
}

#[derive(Default, Clone, Debug)]
pub struct Probes {
    pub c: BTreeMap<&'static str, u64>,
}
impl Probes {
    pub fn hit(&mut self, k: &'static str) {
        *self.c.entry(k).or_insert(0) += 1;
    }
    pub fn add(&mut self, k: &'static str, n: u64) {
        *self.c.entry(k).or_insert(0) += n;
    }
    pub fn get(&self, k: &str) -> u64 {
        self.c.get(k).copied().unwrap_or(0)
    }
    pub fn merge(&mut self, o: &Probes) {
        for (k, v) in &o.c {
            *self.c.entry(k).or_insert(0) += v;
        }
    }
}

pub struct RunResult {
    pub violation: Option<Violation>,
    pub probes: Probes,
    pub steps: usize,
    /// max over handles of the number of relate calls with intersecting envelopes the handle
    /// took part in (>= 2 makes the history non-trivial)
    pub max_reuse: u64,
}

struct Handle<'a> {
    id: u64,
    geom: usize,
    prep: Prep<'a>,
}

const MAX_HANDLES: usize = 4;

#[derive(Clone, Copy, PartialEq, Debug)]
enum Ref {
    Plain(usize),
    Handle(u64),
}

fn outcome(f: impl FnOnce() -> String) -> String {
    match catch_unwind(AssertUnwindSafe(f)) {
        Ok(s) => s,
        Err(_) => format!("PANIC@{}", crate::cli::take_last_panic().unwrap_or_default()),
    }
}

pub fn run_history(h: &History) -> RunResult {
    let plains: Vec<Plain> = h.geoms.iter().map(build).collect();
    let mut pr = Probes::default();
    let mut handles: Vec<Handle> = Vec::new();
    let mut next_id = 0u64;
    let mut reuse: BTreeMap<u64, u64> = BTreeMap::new();
    // asked questions: (a, b, first answer)
    let mut asked: Vec<(Ref, Ref, String)> = Vec::new();
    let ng = plains.len();
    macro_rules! fail {
        ($i:expr, $op:expr, $class:expr, $detail:expr) => {
            return RunResult {
                violation: Some(Violation { step: $i, op: $op.to_string(), class: $class.to_string(), detail: $detail }),
                max_reuse: reuse.values().copied().max().unwrap_or(0),
                probes: pr,
                steps: $i + 1,
            }
        };
    }
    for (i, st) in h.steps.iter().enumerate() {
        match st {
            Step::Prepare { geom, owned } => {
                let gi = geom % ng;
                pr.hit(if *owned { "prepare_owned" } else { "prepare_borrowed" });
                let built = catch_unwind(AssertUnwindSafe(|| prepare(&plains[gi], *owned)));
                match built {
                    Ok(p) => {
                        if handles.len() >= MAX_HANDLES {
                            handles.remove(0);
                            pr.hit("handle_evicted");
                        }
                        handles.push(Handle { id: next_id, geom: gi, prep: p });
                        next_id += 1;
                    }
                    Err(_) => {
                        // preparing noded the geometry and panicked: the plain path must panic
                        // too when the geometry is related to itself
                        let _ = crate::cli::take_last_panic();
                        pr.hit("prepare_panicked");
                    }
                }
            }
            Step::CloneHandle { slot } => {
                if handles.is_empty() {
                    continue;
                }
                let s = slot % handles.len();
                pr.hit("clone_handle");
                let p = handles[s].prep.clone();
                let g = handles[s].geom;
                if handles.len() >= MAX_HANDLES {
                    handles.remove(0);
                    pr.hit("handle_evicted");
                }
                handles.push(Handle { id: next_id, geom: g, prep: p });
                next_id += 1;
            }
            Step::DropHandle { slot } => {
                if handles.is_empty() {
                    continue;
                }
                let s = slot % handles.len();
                pr.hit("drop_handle");
                handles.remove(s);
            }
            Step::Accessors { slot } => {
                if handles.is_empty() {
                    continue;
                }
                let s = slot % handles.len();
                pr.hit("accessors");
                let hd = &handles[s];
                let pl = &plains[hd.geom];
                let (bb, dims, empty): (Option<Rect<f64>>, _, bool) =
                    with_prep!(&hd.prep, x => (x.bounding_rect(), (x.dimensions(), x.boundary_dimensions()), x.is_empty()));
                let (bb2, dims2, empty2) = with_plain!(pl, x => (x.bounding_rect().into(), (x.dimensions(), x.boundary_dimensions()), x.is_empty()));
                if bb != bb2 || dims != dims2 || empty != empty2 {
                    fail!(i, "accessors", "accessor-differs", format!("prepared: {:?} {:?} {} plain: {:?} {:?} {}", bb, dims, empty, bb2, dims2, empty2));
                }
            }
            Step::Relate { a, b } => {
                // resolve operands
                let res = |o: &Operand, handles: &Vec<Handle>| -> Option<(Ref, usize)> {
                    match o {
                        Operand::Plain(g) => Some((Ref::Plain(g % ng), g % ng)),
                        Operand::Prep(s) => {
                            if handles.is_empty() {
                                None
                            } else {
                                let hd = &handles[s % handles.len()];
                                Some((Ref::Handle(hd.id), hd.geom))
                            }
                        }
                    }
                };
                let (Some((ra, ga)), Some((rb, gb))) = (res(a, &handles), res(b, &handles)) else { continue };
                if matches!((ra, rb), (Ref::Plain(_), Ref::Plain(_))) {
                    continue;
                }
                pr.hit("relate");
                if ra == rb {
                    pr.hit("relate_self_same_handle");
                }
                if matches!(ra, Ref::Handle(_)) && matches!(rb, Ref::Handle(_)) {
                    pr.hit("relate_prep_prep");
                } else if matches!(ra, Ref::Handle(_)) {
                    pr.hit("relate_prep_first");
                } else {
                    pr.hit("relate_prep_second");
                }
                let overlap = match (bbox(&plains[ga]), bbox(&plains[gb])) {
                    (Some(x), Some(y)) => x.intersects(&y),
                    _ => false,
                };
                if overlap {
                    pr.hit("relate_envelopes_intersect");
                    for r in [ra, rb] {
                        if let Ref::Handle(id) = r {
                            *reuse.entry(id).or_insert(0) += 1;
                        }
                    }
                }
                let find = |r: Ref, handles: &'_ Vec<Handle>| -> usize {
                    match r {
                        Ref::Handle(id) => handles.iter().position(|h| h.id == id).unwrap(),
                        Ref::Plain(g) => g,
                    }
                };
                let oa = match ra {
                    Ref::Plain(g) => Opnd::Plain(&plains[g]),
                    Ref::Handle(_) => Opnd::Prep(&handles[find(ra, &handles)].prep),
                };
                let ob = match rb {
                    Ref::Plain(g) => Opnd::Plain(&plains[g]),
                    Ref::Handle(_) => Opnd::Prep(&handles[find(rb, &handles)].prep),
                };
                let got = outcome(|| relate_dyn(oa, ob));
                let want = outcome(|| relate_dyn(Opnd::Plain(&plains[ga]), Opnd::Plain(&plains[gb])));
                if got.starts_with("PANIC") {
                    pr.hit("relate_panicked");
                }
                if got != want {
                    let class = if got.starts_with("PANIC") != want.starts_with("PANIC") { "panic-differs" } else { "matrix-differs" };
                    fail!(i, "relate", class, format!("{:?}.relate({:?}): prepared path {} , plain path {} ; a={:?} b={:?}", a, b, got, want, h.geoms[ga], h.geoms[gb]));
                }
                asked.push((ra, rb, got));
            }
        }
    }
    if h.reask {
        // re-ask, in reverse order, every question whose handles are still alive
        let n = h.steps.len();
        for (k, (ra, rb, first)) in asked.iter().enumerate().rev() {
            let alive = |r: &Ref| match r {
                Ref::Plain(_) => true,
                Ref::Handle(id) => handles.iter().any(|h| h.id == *id),
            };
            if !alive(ra) || !alive(rb) {
                continue;
            }
            pr.hit("reasked");
            let get = |r: &Ref| match r {
                Ref::Plain(g) => Opnd::Plain(&plains[*g]),
                Ref::Handle(id) => Opnd::Prep(&handles.iter().find(|h| h.id == *id).unwrap().prep),
            };
            let again = outcome(|| relate_dyn(get(ra), get(rb)));
            if &again != first {
                fail!(n, "re-ask", "answer-changed", format!("question #{k} {:?}.relate({:?}) answered {} first and {} when re-asked", ra, rb, first, again));
            }
        }
    }
    RunResult { violation: None, max_reuse: reuse.values().copied().max().unwrap_or(0), probes: pr, steps: h.steps.len() }
}

// ---------------------------------------------------------------------------------------------
// generation
// ---------------------------------------------------------------------------------------------

fn gc(rng: &mut Rng, span: i64) -> C {
    (rng.range(0, span), rng.range(0, span))
}

fn gen_coords(rng: &mut Rng, lo: usize, hi: usize, span: i64) -> Vec<C> {
    let n = lo + rng.below(hi - lo + 1);
    (0..n).map(|_| gc(rng, span)).collect()
}

/// star-shaped ring around a centre: valid-looking, many vertices (gives the R-tree some depth)
fn gen_star(rng: &mut Rng, span: i64) -> Vec<C> {
    let n = 5 + rng.below(28);
    let cx = rng.range(span / 4, 3 * span / 4) as f64;
    let cy = rng.range(span / 4, 3 * span / 4) as f64;
    let r0 = (span as f64) * (0.15 + 0.3 * rng.unit());
    let mut v: Vec<C> = Vec::with_capacity(n + 1);
    for k in 0..n {
        let ang = (k as f64) * std::f64::consts::TAU / (n as f64);
        let r = r0 * (0.5 + 0.5 * rng.unit());
        v.push(((cx + r * ang.cos()).round() as i64, (cy + r * ang.sin()).round() as i64));
    }
    let f = v[0];
    v.push(f);
    v
}

/// many-vertex shapes for the "big" swarm: the cached R-tree gets several levels and single
/// edges get long
fn gen_big(rng: &mut Rng, span: i64) -> G {
    let n = *rng.pick(&[40usize, 90, 150, 300]);
    match rng.below(5) {
        0 | 1 => {
            // star-shaped polygon with n vertices on a fine grid, maybe with a hole
            let cx = rng.range(span / 4, 3 * span / 4) as f64;
            let cy = rng.range(span / 4, 3 * span / 4) as f64;
            let r0 = span as f64 * (0.2 + 0.25 * rng.unit());
            let mk = |rng: &mut Rng, r0: f64, n: usize| {
                let mut v: Vec<C> = (0..n)
                    .map(|k| {
                        let ang = (k as f64) * std::f64::consts::TAU / (n as f64);
                        let r = r0 * (0.7 + 0.3 * rng.unit());
                        ((cx + r * ang.cos()).round() as i64, (cy + r * ang.sin()).round() as i64)
                    })
                    .collect();
                v.dedup();
                let f = v[0];
                v.push(f);
                v
            };
            let shell = mk(rng, r0, n);
            let holes = if rng.chance(1, 2) { vec![mk(rng, r0 * 0.3, 3 + n / 10)] } else { vec![] };
            G::Polygon(shell, holes)
        }
        2 => {
            // zig-zag line string crossing the area many times
            let y0 = rng.range(0, span);
            G::LineString((0..n).map(|k| ((k as i64 * span) / n as i64, if k % 2 == 0 { y0 } else { y0 + 1 + (k as i64 % 5) })).collect())
        }
        3 => {
            // many small members sharing one envelope row
            let m = *rng.pick(&[n / 8, 70, 130]);
            G::MultiPolygon(
                (0..m)
                    .map(|k| {
                        let x = (k as i64 * span) / m as i64;
                        let y = rng.range(0, span - 1);
                        (vec![(x, y), (x + 1, y), (x + 1, y + 1), (x, y + 1), (x, y)], vec![])
                    })
                    .collect(),
            )
        }
        _ => G::MultiLineString((0..n / 10).map(|_| gen_coords(rng, 2, 12, span)).collect()),
    }
}

fn offset_geom(g: &G, d: C) -> G {
    let o = |c: &C| (c.0 + d.0, c.1 + d.1);
    let ov = |v: &Vec<C>| v.iter().map(o).collect::<Vec<C>>();
    match g {
        G::Point(c) => G::Point(o(c)),
        G::Line(a, b) => G::Line(o(a), o(b)),
        G::LineString(v) => G::LineString(ov(v)),
        G::Polygon(e, is) => G::Polygon(ov(e), is.iter().map(ov).collect()),
        G::MultiPoint(v) => G::MultiPoint(ov(v)),
        G::MultiLineString(vs) => G::MultiLineString(vs.iter().map(ov).collect()),
        G::MultiPolygon(ps) => G::MultiPolygon(ps.iter().map(|(e, is)| (ov(e), is.iter().map(ov).collect())).collect()),
        G::Rect(a, b) => G::Rect(o(a), o(b)),
        G::Triangle(a, b, c) => G::Triangle(o(a), o(b), o(c)),
        G::Collection(gs) => G::Collection(gs.iter().map(|g| offset_geom(g, d)).collect()),
        G::Enum(inner) => G::Enum(Box::new(offset_geom(inner, d))),
    }
}

fn gen_ring(rng: &mut Rng, span: i64) -> Vec<C> {
    match rng.below(8) {
        0 => gen_star(rng, span * 3),
        1 => {
            // axis-parallel box (lots of collinear overlaps with other boxes)
            let a = gc(rng, span);
            let b = gc(rng, span);
            vec![(a.0, a.1), (b.0, a.1), (b.0, b.1), (a.0, b.1), (a.0, a.1)]
        }
        2 => gen_coords(rng, 0, 2, span),
        _ => {
            let mut v = gen_coords(rng, 3, 6, span);
            if rng.chance(3, 4) {
                let f = v[0];
                v.push(f);
            }
            v
        }
    }
}

fn gen_poly(rng: &mut Rng, span: i64) -> (Vec<C>, Vec<Vec<C>>) {
    let e = gen_ring(rng, span);
    let nh = if rng.chance(1, 4) { 1 + rng.below(2) } else { 0 };
    (e, (0..nh).map(|_| gen_ring(rng, span)).collect())
}

pub fn gen_geom(rng: &mut Rng, span: i64, depth: usize) -> G {
    let g = match rng.below(if depth == 0 { 12 } else { 10 }) {
        0 => G::Point(gc(rng, span)),
        1 => G::Line(gc(rng, span), gc(rng, span)),
        2 => G::LineString(gen_coords(rng, 0, 7, span)),
        3 | 4 => {
            let (e, is) = gen_poly(rng, span);
            G::Polygon(e, is)
        }
        5 => G::MultiPoint(gen_coords(rng, 0, 5, span)),
        6 => G::MultiLineString((0..rng.below(4)).map(|_| gen_coords(rng, 0, 5, span)).collect()),
        7 => G::MultiPolygon((0..rng.below(4)).map(|_| gen_poly(rng, span)).collect()),
        8 => G::Rect(gc(rng, span), gc(rng, span)),
        9 => G::Triangle(gc(rng, span), gc(rng, span), gc(rng, span)),
        _ => G::Collection((0..rng.below(4)).map(|_| gen_geom(rng, span, depth + 1)).collect()),
    };
    if depth == 0 && rng.chance(1, 5) {
        G::Enum(Box::new(g))
    } else {
        g
    }
}

/// "Clustered" swarm: one large prepared geometry and many small partners that all sit in one
/// small region on its boundary, used 20-45 times (an index that adapts to the observed queries,
/// an LRU of partners, a counter ... needs exactly this kind of history).
fn gen_clustered(rng: &mut Rng) -> History {
    let s = *rng.pick(&[40i64, 100, 200]);
    let big = match rng.below(3) {
        0 => G::Polygon(vec![(0, 0), (s, 0), (s, s), (0, s), (0, 0)], vec![]),
        1 => G::Polygon(vec![(0, 0), (s, 0), (s, s), (0, s), (0, 0)], vec![vec![(s / 4, s / 4), (s / 4, 3 * s / 4), (3 * s / 4, 3 * s / 4), (3 * s / 4, s / 4), (s / 4, s / 4)]]),
        _ => G::LineString(vec![(0, 0), (s, 0), (s, s), (0, s), (0, 2), (s - 2, 2)]),
    };
    // cluster centre on the bottom edge or at a corner
    let cx = *rng.pick(&[0, s / 5, s / 2, s - 3]);
    let cy = *rng.pick(&[0i64, 0, 0, 2]);
    let ng = 4 + rng.below(4);
    let mut geoms = vec![big];
    for _ in 0..ng {
        geoms.push(offset_geom(&gen_geom(rng, 4, 0), (cx - 2, cy - 2)));
    }
    let mut steps = vec![Step::Prepare { geom: 0, owned: rng.chance(1, 2) }];
    let n = 20 + rng.below(26);
    for k in 0..n {
        let g = 1 + rng.below(ng);
        let st = match rng.below(12) {
            0 => Step::CloneHandle { slot: rng.below(2) },
            1 if k > 10 => Step::DropHandle { slot: 0 },
            2..=6 => Step::Relate { a: Operand::Prep(rng.below(2)), b: Operand::Plain(g) },
            _ => Step::Relate { a: Operand::Plain(g), b: Operand::Prep(rng.below(2)) },
        };
        steps.push(st);
        if !steps.iter().any(|s| matches!(s, Step::Prepare { .. })) || matches!(steps.last(), Some(Step::DropHandle { .. })) {
            steps.push(Step::Prepare { geom: 0, owned: true });
        }
    }
    History { geoms, steps, reask: true }
}

pub fn gen_history(seed: u64) -> History {
    let mut rng = Rng::stream(seed, "c17-workload");
    if rng.chance(1, 14) {
        return gen_clustered(&mut rng);
    }
    // swarm: most histories are small, dense in coincidences and short; some have many-vertex
    // geometries (multi-level R-tree, long edges), some are long (one handle reused dozens of
    // times), some sit far from the origin
    let big = rng.chance(1, 40);
    let long = !big && rng.chance(1, 16);
    let far = rng.chance(1, 8);
    let span = if big { *rng.pick(&[40i64, 80, 160]) } else { *rng.pick(&[3i64, 4, 6, 6, 8, 12]) };
    let ng = 2 + rng.below(5);
    let mut geoms: Vec<G> = (0..ng).map(|_| if big && rng.chance(1, 2) { gen_big(&mut rng, span) } else { gen_geom(&mut rng, span, 0) }).collect();
    if far {
        let d = *rng.pick(&[(4_000_000i64, -600_000i64), (-20_000_001, 7), (1 << 40, 1 << 40), (-3, 123_456_789)]);
        geoms = geoms.iter().map(|g| offset_geom(g, d)).collect();
    }
    let n = if long {
        30 + rng.below(70)
    } else if big {
        2 + rng.below(6)
    } else {
        3 + rng.below(12)
    };
    let mut steps = vec![Step::Prepare { geom: rng.below(ng), owned: rng.chance(1, 2) }];
    // swarm: weights of the step kinds vary per run
    let w_prep = 1 + rng.below(3);
    let w_clone = rng.below(3);
    let w_drop = rng.below(2);
    let w_acc = rng.below(2);
    let w_rel = 6 + rng.below(6);
    let tot = w_prep + w_clone + w_drop + w_acc + w_rel;
    for _ in 0..n {
        let k = rng.below(tot);
        let st = if k < w_prep {
            Step::Prepare { geom: rng.below(ng), owned: rng.chance(1, 2) }
        } else if k < w_prep + w_clone {
            Step::CloneHandle { slot: rng.below(4) }
        } else if k < w_prep + w_clone + w_drop {
            Step::DropHandle { slot: rng.below(4) }
        } else if k < w_prep + w_clone + w_drop + w_acc {
            Step::Accessors { slot: rng.below(4) }
        } else {
            let s = rng.below(4);
            match rng.below(10) {
                0..=3 => Step::Relate { a: Operand::Prep(s), b: Operand::Plain(rng.below(ng)) },
                4..=6 => Step::Relate { a: Operand::Plain(rng.below(ng)), b: Operand::Prep(s) },
                7 | 8 => Step::Relate { a: Operand::Prep(s), b: Operand::Prep(rng.below(4)) },
                _ => Step::Relate { a: Operand::Prep(s), b: Operand::Prep(s) },
            }
        };
        steps.push(st);
    }
    History { geoms, steps, reask: true }
}

// ---------------------------------------------------------------------------------------------
// minimisation
// ---------------------------------------------------------------------------------------------

fn fails_same(h: &History, class: &str) -> Option<Violation> {
    run_history(h).violation.filter(|v| v.class == class)
}

fn shrink_geom(g: &G) -> Vec<G> {
    // candidates: drop a chunk (halves, quarters, ... for long vectors), then single elements
    let drop1 = |v: &Vec<C>| -> Vec<Vec<C>> {
        let mut out: Vec<Vec<C>> = vec![];
        let mut chunk = v.len() / 2;
        while chunk >= 2 {
            let mut start = 0;
            while start < v.len() {
                let mut t = v.clone();
                let end = (start + chunk).min(t.len());
                t.drain(start..end);
                out.push(t);
                start += chunk;
            }
            chunk /= 2;
        }
        if v.len() <= 24 {
            for i in 0..v.len() {
                let mut t = v.clone();
                t.remove(i);
                out.push(t);
            }
        }
        out
    };
    let mut out = vec![];
    match g {
        G::Enum(inner) => {
            out.push((**inner).clone());
            out.extend(shrink_geom(inner).into_iter().map(|x| G::Enum(Box::new(x))));
        }
        G::Collection(gs) => {
            for i in 0..gs.len() {
                let mut t = gs.clone();
                t.remove(i);
                out.push(G::Collection(t));
            }
            if gs.len() == 1 {
                out.push(gs[0].clone());
            }
            for i in 0..gs.len() {
                for s in shrink_geom(&gs[i]) {
                    let mut t = gs.clone();
                    t[i] = s;
                    out.push(G::Collection(t));
                }
            }
        }
        G::LineString(v) => out.extend(drop1(v).into_iter().map(G::LineString)),
        G::MultiPoint(v) => out.extend(drop1(v).into_iter().map(G::MultiPoint)),
        G::Polygon(e, is) => {
            for i in 0..is.len() {
                let mut t = is.clone();
                t.remove(i);
                out.push(G::Polygon(e.clone(), t));
            }
            out.extend(drop1(e).into_iter().map(|x| G::Polygon(x, is.clone())));
            for i in 0..is.len() {
                for r in drop1(&is[i]) {
                    let mut t = is.clone();
                    t[i] = r;
                    out.push(G::Polygon(e.clone(), t));
                }
            }
        }
        G::MultiLineString(ls_) => {
            for i in 0..ls_.len() {
                let mut t = ls_.clone();
                t.remove(i);
                out.push(G::MultiLineString(t));
            }
            for i in 0..ls_.len() {
                for r in drop1(&ls_[i]) {
                    let mut t = ls_.clone();
                    t[i] = r;
                    out.push(G::MultiLineString(t));
                }
            }
        }
        G::MultiPolygon(ps) => {
            for i in 0..ps.len() {
                let mut t = ps.clone();
                t.remove(i);
                out.push(G::MultiPolygon(t));
            }
            for i in 0..ps.len() {
                for s in shrink_geom(&G::Polygon(ps[i].0.clone(), ps[i].1.clone())) {
                    if let G::Polygon(e, is) = s {
                        let mut t = ps.clone();
                        t[i] = (e, is);
                        out.push(G::MultiPolygon(t));
                    }
                }
            }
        }
        _ => {}
    }
    out
}

pub fn minimise(h: &History, v: &Violation) -> (History, Violation) {
    // bounded effort: a minimised replay is a convenience, the un-minimised one is just as valid
    let deadline = std::time::Instant::now() + std::time::Duration::from_secs(8);
    let mut cur = h.clone();
    let mut curv = v.clone();
    if curv.step < cur.steps.len() {
        cur.steps.truncate(curv.step + 1);
    }
    loop {
        let mut changed = false;
        let mut i = 0;
        while i < cur.steps.len() && std::time::Instant::now() < deadline {
            let mut t = cur.clone();
            t.steps.remove(i);
            if let Some(v2) = fails_same(&t, &curv.class) {
                cur = t;
                curv = v2;
                changed = true;
            } else {
                i += 1;
            }
        }
        for gi in 0..cur.geoms.len() {
            for s in shrink_geom(&cur.geoms[gi]) {
                if std::time::Instant::now() >= deadline {
                    break;
                }
                let mut t = cur.clone();
                t.geoms[gi] = s;
                if let Some(v2) = fails_same(&t, &curv.class) {
                    cur = t;
                    curv = v2;
                    changed = true;
                    break;
                }
            }
        }
        if !changed || std::time::Instant::now() >= deadline {
            break;
        }
    }
    (cur, curv)
}

