#!/bin/bash
# usage: confirm_mutant.sh <worktree> <demo-package> <seeded-id>
# Only the confirmation half of try_mutant_wt.sh: suites unchanged with the change, demo fails with it and passes without.
set -u
WT=$1; PKG=$2; ID=$3
cd $WT || exit 2
git apply --check -R patch.diff 2>/dev/null || git apply patch.diff || { echo "cannot apply patch"; exit 2; }
echo "== with the change"
cargo test -p geo --lib --offline 2>&1 | grep -E "^test result" | sed 's/^/geo lib: /'
cargo test -p geo-types --lib --offline 2>&1 | grep -E "^test result" | sed 's/^/geo-types lib: /'
cargo test -p jts-test-runner --offline 2>&1 | grep -E "^test result" | head -2 | sed 's/^/jts: /'
cargo test -p $PKG --test demo_break --offline 2>&1 | grep -E "^test result" | tail -1 | sed 's/^/demo WITH change: /'
git apply -R patch.diff
echo "== without the change"
cargo test -p $PKG --test demo_break --offline 2>&1 | grep -E "^test result" | tail -1 | sed 's/^/demo WITHOUT change: /'
git apply patch.diff
mkdir -p /verif/seeded/$ID
cp $WT/patch.diff /verif/seeded/$ID/patch.diff
cp $WT/demo.rs /verif/seeded/$ID/demo.rs 2>/dev/null
cp $WT/REPORT.md /verif/seeded/$ID/agent_report.md 2>/dev/null
