//! Small deterministic toolkit shared by the simulator crates: seeded PRNG with named streams,
//! FNV digests, canonical byte writer.  Nothing here reads a clock, the environment or the OS.

pub mod rng;
pub mod bytes;

pub use rng::Rng;
pub use bytes::{fnv1a, hex, Canon, Out};
