//! `hist` engine for C18: seeded API histories over the geo-types value types, with caller
//! closures interpreted as edit scripts and an injected `Err` exit at a seeded position (the
//! "crash at an arbitrary instant" of a library: the durable state is the object the caller
//! still holds).  After every step the stated invariants are evaluated on the raw coordinate
//! vectors.
//!
//! The oracle states exactly C18 and nothing more:
//!   * every ring of every live Polygon has `first == last`;
//!   * every live Rect has `min <= max` componentwise;
//!   * conversions between equivalent representations keep the coordinates and their order.

use geo::algorithm::{
    AffineOps, AffineTransform, MapCoordsInPlace, RemoveRepeatedPoints, Translate,
};
use geo_types::polygon;
use geo_types::{
    Coord, CoordNum, Geometry, GeometryCollection, Line, LineString, MultiLineString, MultiPoint,
    MultiPolygon, Point, Polygon, Rect, Triangle,
};
use serde::{Deserialize, Serialize};
use simkit::Rng;
use std::collections::BTreeMap;

pub type C = (i64, i64);
/// codes >= EXT select extreme scalar values (type maxima and the like); they are only ever
/// generated for Rect corners, and geometry derived from such a Rect never joins the polygon pool
/// (inf - inf = NaN would make "closed" unsatisfiable)
pub const EXT: i64 = 1 << 40;
/// codes in [TINY - 64, TINY + 64] select values so small that products of their differences
/// underflow (floats: k * 1e-170 / k * 1e-30); for integer scalars they are just small integers
pub const TINY: i64 = 1 << 36;

pub trait Scalar: CoordNum + std::fmt::Debug + 'static {
    const NAME: &'static str;
    const FLOAT: bool;
    fn from_code(c: i64) -> Self;
    /// is this value beyond the range in which arithmetic stays finite / in range
    fn is_extreme(self) -> bool;
    /// false for NaN / infinities (never true for integers)
    fn finite(self) -> bool {
        true
    }
    /// geo-level mutators that need float arithmetic (no-op for integer scalars)
    fn float_op(_p: &mut Polygon<Self>, _k: u8) {}
    /// geo algorithms deriving new polygons / rects (floats only)
    fn derive(_p: &Polygon<Self>, _k: u8) -> (Vec<Polygon<Self>>, Vec<Rect<Self>>) {
        (vec![], vec![])
    }
    /// the `Arbitrary` constructors of geo-types (feature `arbitrary`, floats only): every Polygon
    /// / Rect that comes out of `Polygon::arbitrary`, `Rect::arbitrary`, `Geometry::arbitrary`
    /// (at any nesting depth) for the given fuzzer bytes, and the number of objects dropped
    /// because a coordinate was not finite
    fn arbitrary(_bytes: &[u8], _kind: u8) -> (Vec<Polygon<Self>>, Vec<Rect<Self>>, usize) {
        (vec![], vec![], 0)
    }
}

fn arbitrary_impl<T>(bytes: &[u8], kind: u8) -> (Vec<Polygon<T>>, Vec<Rect<T>>, usize)
where
    T: Scalar + geo_types::CoordFloat + for<'a> arbitrary::Arbitrary<'a>,
{
    use arbitrary::{Arbitrary, Unstructured};
    fn collect<T: Scalar>(g: Geometry<T>, ps: &mut Vec<Polygon<T>>, rs: &mut Vec<Rect<T>>) {
        match g {
            Geometry::Polygon(p) => ps.push(p),
            Geometry::MultiPolygon(m) => ps.extend(m.0),
            Geometry::Rect(r) => rs.push(r),
            Geometry::GeometryCollection(c) => c.0.into_iter().for_each(|g| collect(g, ps, rs)),
            _ => {}
        }
    }
    let mut u = Unstructured::new(bytes);
    let (mut ps, mut rs) = (vec![], vec![]);
    match kind % 4 {
        0 => {
            if let Ok(p) = Polygon::<T>::arbitrary(&mut u) {
                ps.push(p)
            }
        }
        1 => {
            if let Ok(r) = Rect::<T>::arbitrary(&mut u) {
                rs.push(r)
            }
        }
        2 => {
            if let Ok(m) = MultiPolygon::<T>::arbitrary(&mut u) {
                ps.extend(m.0)
            }
        }
        _ => {
            // the Geometry enum, variant chosen here: `Geometry::arbitrary` itself can pick
            // GeometryCollection, whose `arbitrary` on the pinned tree is `u.arbitrary()` at type Self,
            // i.e. calls itself for ever (observed: a 4-byte input spins at 100 % CPU) - a defect of that
            // feature-gated constructor, but not of any listed property, so it is avoided, not judged
            let g = match u.int_in_range(0..=2u8).unwrap_or(0) {
                0 => Polygon::<T>::arbitrary(&mut u).map(Geometry::Polygon),
                1 => MultiPolygon::<T>::arbitrary(&mut u).map(Geometry::MultiPolygon),
                _ => Rect::<T>::arbitrary(&mut u).map(Geometry::Rect),
            };
            if let Ok(g) = g {
                collect(g, &mut ps, &mut rs)
            }
        }
    }
    let n0 = ps.len() + rs.len();
    ps.retain(|p| p.exterior().0.iter().chain(p.interiors().iter().flat_map(|r| r.0.iter())).all(|c| c.x.finite() && c.y.finite()));
    rs.retain(|r| r.min().x.finite() && r.min().y.finite() && r.max().x.finite() && r.max().y.finite());
    let dropped = n0 - ps.len() - rs.len();
    (ps, rs, dropped)
}
impl Scalar for f64 {
    const NAME: &'static str = "f64";
    const FLOAT: bool = true;
    fn from_code(c: i64) -> f64 {
        if c >= EXT {
            return [f64::MAX, -f64::MAX, f64::MAX / 2.0, -f64::MAX / 2.0, 1e308, -1e308, f64::MIN_POSITIVE, 0.0][((c - EXT) % 8) as usize];
        }
        if (c - TINY).abs() <= 64 {
            return (c - TINY) as f64 * 1e-170;
        }
        c as f64 * 0.25
    }
    fn is_extreme(self) -> bool {
        !(self.abs() <= 1e100)
    }
    fn finite(self) -> bool {
        self.is_finite()
    }
    fn float_op(p: &mut Polygon<f64>, k: u8) {
        float_op_impl(p, k)
    }
    fn derive(p: &Polygon<f64>, k: u8) -> (Vec<Polygon<f64>>, Vec<Rect<f64>>) {
        derive_f64(p, k)
    }
    fn arbitrary(bytes: &[u8], kind: u8) -> (Vec<Polygon<f64>>, Vec<Rect<f64>>, usize) {
        arbitrary_impl::<f64>(bytes, kind)
    }
}
impl Scalar for f32 {
    const NAME: &'static str = "f32";
    const FLOAT: bool = true;
    fn from_code(c: i64) -> f32 {
        if c >= EXT {
            return [f32::MAX, -f32::MAX, f32::MAX / 2.0, -f32::MAX / 2.0, 3e38, -3e38, f32::MIN_POSITIVE, 0.0][((c - EXT) % 8) as usize];
        }
        if (c - TINY).abs() <= 64 {
            return (c - TINY) as f32 * 1e-30;
        }
        c as f32 * 0.25
    }
    fn is_extreme(self) -> bool {
        !(self.abs() <= 1e30)
    }
    fn finite(self) -> bool {
        self.is_finite()
    }
    fn float_op(p: &mut Polygon<f32>, k: u8) {
        float_op_impl(p, k)
    }
    fn derive(p: &Polygon<f32>, k: u8) -> (Vec<Polygon<f32>>, Vec<Rect<f32>>) {
        derive_f32(p, k)
    }
    fn arbitrary(bytes: &[u8], kind: u8) -> (Vec<Polygon<f32>>, Vec<Rect<f32>>, usize) {
        arbitrary_impl::<f32>(bytes, kind)
    }
}
impl Scalar for i32 {
    const NAME: &'static str = "i32";
    const FLOAT: bool = false;
    fn from_code(c: i64) -> i32 {
        if c >= EXT {
            return [i32::MAX, i32::MIN, i32::MAX / 2, i32::MIN / 2, i32::MAX - 1, i32::MIN + 1, 1, 0][((c - EXT) % 8) as usize];
        }
        if (c - TINY).abs() <= 64 {
            return (c - TINY) as i32;
        }
        c as i32
    }
    fn is_extreme(self) -> bool {
        self.unsigned_abs() > 1 << 28
    }
}
impl Scalar for i64 {
    const NAME: &'static str = "i64";
    const FLOAT: bool = false;
    fn from_code(c: i64) -> i64 {
        if c >= EXT {
            return [i64::MAX, i64::MIN, i64::MAX / 2, i64::MIN / 2, i64::MAX - 1, i64::MIN + 1, 1, 0][((c - EXT) % 8) as usize];
        }
        if (c - TINY).abs() <= 64 {
            return c - TINY;
        }
        c
    }
    fn is_extreme(self) -> bool {
        self.unsigned_abs() > 1 << 60
    }
}

macro_rules! derive_impl {
    ($name:ident, $t:ty) => {
        fn $name(p: &Polygon<$t>, k: u8) -> (Vec<Polygon<$t>>, Vec<Rect<$t>>) {
            use geo::algorithm::bool_ops::BooleanOps;
            use geo::algorithm::line_measures::{Densify, Euclidean};
            use geo::algorithm::orient::Direction;
            use geo::algorithm::{BoundingRect, ChaikinSmoothing, ConcaveHull, ConvexHull, MinimumRotatedRect, Orient, Simplify, SimplifyVw, SimplifyVwPreserve, Winding};
            let mut ps: Vec<Polygon<$t>> = vec![];
            let mut rs: Vec<Rect<$t>> = vec![];
            let short = p.exterior().0.len() <= 12 && p.interiors().iter().all(|r| r.0.len() <= 12) && p.interiors().len() <= 4;
            // small extent: work proportional to lengths (densify) stays bounded
            let compact = p.exterior().0.iter().chain(p.interiors().iter().flat_map(|r| r.0.iter())).all(|c| c.x.abs() <= 64.0 && c.y.abs() <= 64.0);
            match k % 18 {
                0 => ps.push(p.orient(Direction::Default)),
                1 => ps.push(p.orient(Direction::Reversed)),
                2 => ps.push(p.simplify(0.3)),
                3 => ps.push(p.simplify_vw_preserve(0.3)),
                4 => ps.push(p.convex_hull()),
                5 => ps.push(p.chaikin_smoothing(1)),
                6 => ps.push(geo::algorithm::RemoveRepeatedPoints::remove_repeated_points(p)),
                7 => {
                    // only for short rings: the overlay of arbitrary invalid input is kept tiny
                    if short {
                        let shifted = geo::algorithm::Translate::translate(p, 0.5, 0.25);
                        ps.extend(p.union(&shifted).0);
                        ps.extend(p.difference(&shifted).0.into_iter().take(3));
                        ps.extend(p.intersection(&shifted).0.into_iter().take(3));
                        ps.extend(p.xor(&shifted).0.into_iter().take(3));
                    }
                }
                8 => {
                    if let Some(r) = p.bounding_rect() {
                        rs.push(r);
                        ps.push(r.to_polygon());
                    }
                }
                9 => ps.push(p.simplify_vw(0.3)),
                10 => {
                    if short && compact {
                        ps.push(Euclidean.densify(p, 0.7))
                    }
                }
                11 => {
                    if let Some(m) = p.minimum_rotated_rect() {
                        ps.push(m);
                    }
                }
                12 => {
                    if short {
                        ps.push(p.concave_hull(2.0))
                    }
                }
                13 => {
                    // Rects handed out for other geometry types built from the same coordinates
                    if let Some(r) = p.exterior().bounding_rect() {
                        rs.push(r);
                    }
                    if let [a, b, c, ..] = p.exterior().0[..] {
                        rs.push(geo_types::Line::new(a, b).bounding_rect());
                        rs.push(Triangle::new(a, b, c).bounding_rect());
                        let mp = MultiPoint::new(p.exterior().0.iter().map(|c| Point(*c)).collect());
                        if let Some(r) = mp.bounding_rect() {
                            rs.push(r);
                        }
                        let g: Geometry<$t> = p.clone().into();
                        if let Some(r) = g.bounding_rect() {
                            rs.push(r);
                        }
                    }
                }
                14 => {
                    let mut q = p.clone();
                    q.exterior_mut(|e| e.make_cw_winding());
                    q.interiors_mut(|is| is.iter_mut().for_each(|r| r.make_ccw_winding()));
                    ps.push(q);
                }
                15 => {
                    // (earcut is not called here: earcutr can loop forever on degenerate rings,
                    // and C18's rings are arbitrary)
                    let _ = short;
                }
                16 => {
                    let mp = MultiPolygon::new(vec![p.clone(), geo::algorithm::Translate::translate(p, 1.0, 1.0)]);
                    ps.extend(mp.orient(Direction::Default).0);
                    ps.extend(mp.simplify(0.5).0);
                    ps.push(mp.convex_hull());
                }
                _ => {
                    if short {
                        ps.extend(geo::algorithm::bool_ops::unary_union([p, &geo::algorithm::Translate::translate(p, 0.25, 0.0)]).0.into_iter().take(3));
                    }
                }
            }
            (ps, rs)
        }
    };
}
derive_impl!(derive_f64, f64);
derive_impl!(derive_f32, f32);

fn float_op_impl<T: geo::CoordFloat>(p: &mut Polygon<T>, k: u8) {
    let f = |v: f64| T::from(v).unwrap();
    match k % 4 {
        0 => p.affine_transform_mut(&AffineTransform::scale(f(2.0), f(-0.5), Coord { x: f(1.0), y: f(0.25) })),
        1 => p.affine_transform_mut(&AffineTransform::rotate(f(90.0), Coord { x: f(0.0), y: f(0.0) })),
        2 => p.affine_transform_mut(&AffineTransform::skew(f(30.0), f(10.0), Coord { x: f(0.5), y: f(0.5) })),
        _ => p.affine_transform_mut(&AffineTransform::translate(f(0.125), f(-3.0))),
    }
}

fn co<T: Scalar>(c: &C) -> Coord<T> {
    Coord { x: T::from_code(c.0), y: T::from_code(c.1) }
}
fn ring<T: Scalar>(cs: &[C]) -> LineString<T> {
    LineString::new(cs.iter().map(co::<T>).collect())
}

// ---------------------------------------------------------------------------------------------
// history language
// ---------------------------------------------------------------------------------------------

#[derive(Serialize, Deserialize, Clone, Debug, PartialEq)]
pub enum Edit {
    Push(C),
    Pop,
    Insert(usize, C),
    Remove(usize),
    Set(usize, C),
    SetFirst(C),
    SetLast(C),
    Clear,
    Reverse,
    Replace(Vec<C>),
    Truncate(usize),
    RotateLeft(usize),
    CloseNow,
    Dedup,
    /// Vec APIs a closure may legally use on the coordinate vector
    Drain(usize, usize),
    RetainEvenIdx,
    ExtendFrom(Vec<C>),
    SwapRemove(usize),
    SplitOff(usize),
    SortByX,
    DedupByX,
    ExtendFromWithin,
    /// interiors only: swap this ring with ring `j`
    SwapRing(usize),
    /// interiors only: take the ring out (leave an empty one)
    TakeRing,
}

/// An interpreted closure: `edits[k] = (ring index for interiors closures, edit)`.  With
/// `fail_at = Some(k)` the closure returns `Err` after exactly `k` edits (`k = edits.len()` is
/// "did everything, then failed").
#[derive(Serialize, Deserialize, Clone, Debug, PartialEq)]
pub struct Script {
    pub edits: Vec<(usize, Edit)>,
    pub fail_at: Option<usize>,
}

#[derive(Serialize, Deserialize, Clone, Debug, PartialEq)]
pub enum Op {
    New { ext: Vec<C>, ints: Vec<Vec<C>> },
    /// into_inner, edit the free rings (no invariant on free LineStrings), Polygon::new again
    Rebuild { slot: usize, script: Script },
    ExtMut { slot: usize, script: Script },
    TryExtMut { slot: usize, script: Script },
    IntMut { slot: usize, script: Script },
    TryIntMut { slot: usize, script: Script },
    Push { slot: usize, ring: Vec<C>, via: u8 },
    Clone { slot: usize },
    Drop { slot: usize },
    /// wrap in Geometry::Polygon, mutate through `&mut`, TryFrom back
    ViaGeometry { slot: usize, script: Script },
    /// move every pool polygon into a MultiPolygon, mutate each through iter_mut, move back
    ViaMulti { script: Script, try_variant: bool },
    MapCoords { slot: usize, f: u8 },
    /// geo::MapCoordsInPlace::try_map_coords_in_place with the `fail_at`-th call of the mapping
    /// function returning Err
    TryMapCoords { slot: usize, f: u8, fail_at: Option<usize> },
    RemoveRepeated { slot: usize },
    Translate { slot: usize, d: C },
    FloatOp { slot: usize, k: u8 },
    Orient { slot: usize, k: u8 },
    /// read-only accessors and predicates on every live object (a lazily maintained cache or a
    /// "validated" flag set by a getter would make LATER mutators misbehave)
    Observe,
    /// a geo algorithm that builds NEW polygons / rects from a pool polygon (orient, simplify,
    /// convex hull, smoothing, boolean ops, bounding rect …): the results join the pool
    GeoDerive { slot: usize, k: u8 },
    // ---- Rect pool
    RectNew { a: C, b: C },
    RectSet { slot: usize, which_max: bool, c: C },
    /// set_min / set_max with an arbitrary (possibly invalid) corner: the call either panics
    /// (then the Rect's life ends here: state after a panic is outside the statement) or returns
    /// normally, and then the invariant must hold
    RectSetRaw { slot: usize, which_max: bool, c: C },
    RectMap { slot: usize, f: u8, fail_at: Option<usize> },
    RectToPolygon { slot: usize, via: u8 },
    /// Rect::split_x / split_y: both halves are Rects handed out by the public API
    RectSplit { slot: usize, y_axis: bool },
    // ---- stateless conversions
    TriangleConv { a: C, b: C, c: C },
    LineConv { a: C, b: C },
    EnumRoundTrip { kind: u8, cs: Vec<C> },
    Macros { k: u8 },
    LsClose { ring: Vec<C> },
    /// the `Arbitrary` constructors (geo-types feature `arbitrary`) fed with fuzzer bytes
    ArbitraryCtor { bytes: Vec<u8>, kind: u8 },
}

#[derive(Serialize, Deserialize, Clone, Debug)]
pub struct History {
    pub scalar: String,
    pub ops: Vec<Op>,
}

#[derive(Clone, Debug, Serialize, Deserialize, PartialEq)]
pub struct Violation {
    pub step: usize,
    pub op: String,
    /// violation class: "open-exterior", "open-interior", "rect-min-gt-max", "conversion"
    pub class: String,
    pub detail: String,
}

#[derive(Default, Clone, Debug)]
pub struct Probes {
    pub c: BTreeMap<&'static str, u64>,
}
impl Probes {
    pub fn hit(&mut self, k: &'static str) {
        *self.c.entry(k).or_insert(0) += 1;
    }
    pub fn get(&self, k: &str) -> u64 {
        self.c.get(k).copied().unwrap_or(0)
    }
    pub fn merge(&mut self, o: &Probes) {
        for (k, v) in &o.c {
            *self.c.entry(k).or_insert(0) += v;
        }
    }
}

pub fn op_name(op: &Op) -> &'static str {
    match op {
        Op::New { .. } => "Polygon::new",
        Op::Rebuild { .. } => "into_inner+Polygon::new",
        Op::ExtMut { .. } => "exterior_mut",
        Op::TryExtMut { .. } => "try_exterior_mut",
        Op::IntMut { .. } => "interiors_mut",
        Op::TryIntMut { .. } => "try_interiors_mut",
        Op::Push { .. } => "interiors_push",
        Op::Clone { .. } => "clone",
        Op::Drop { .. } => "drop",
        Op::ViaGeometry { .. } => "Geometry::Polygon(&mut)+TryFrom",
        Op::ViaMulti { .. } => "MultiPolygon::iter_mut",
        Op::MapCoords { .. } => "map_coords_in_place",
        Op::TryMapCoords { .. } => "try_map_coords_in_place",
        Op::RemoveRepeated { .. } => "remove_repeated_points_mut",
        Op::Translate { .. } => "translate_mut",
        Op::FloatOp { .. } => "affine_transform_mut",
        Op::Orient { .. } => "reverse rings through exterior_mut/interiors_mut",
        Op::GeoDerive { .. } => "geo algorithm deriving new polygons/rects",
        Op::Observe => "read-only accessors",
        Op::RectNew { .. } => "Rect::new",
        Op::RectSet { .. } => "Rect::set_min/set_max",
        Op::RectSetRaw { .. } => "Rect::set_min/set_max (arbitrary corner)",
        Op::RectMap { .. } => "Rect::(try_)map_coords_in_place",
        Op::RectToPolygon { .. } => "Rect->Polygon",
        Op::RectSplit { .. } => "Rect::split_x/split_y",
        Op::TriangleConv { .. } => "Triangle->Polygon",
        Op::LineConv { .. } => "Line->LineString",
        Op::EnumRoundTrip { .. } => "T->Geometry->T",
        Op::Macros { .. } => "polygon!/wkt!",
        Op::LsClose { .. } => "LineString::close",
        Op::ArbitraryCtor { .. } => "Polygon/Rect/MultiPolygon/Geometry::arbitrary",
    }
}

// ---------------------------------------------------------------------------------------------
// interpreter
// ---------------------------------------------------------------------------------------------

fn apply_edit<T: Scalar>(ls: &mut LineString<T>, e: &Edit) {
    match e {
        Edit::Push(c) => ls.0.push(co(c)),
        Edit::Pop => {
            ls.0.pop();
        }
        Edit::Insert(i, c) => {
            let i = i % (ls.0.len() + 1);
            ls.0.insert(i, co(c))
        }
        Edit::Remove(i) => {
            if !ls.0.is_empty() {
                let n = ls.0.len();
                ls.0.remove(i % n);
            }
        }
        Edit::Set(i, c) => {
            if !ls.0.is_empty() {
                let n = ls.0.len();
                ls.0[i % n] = co(c)
            }
        }
        Edit::SetFirst(c) => {
            if let Some(f) = ls.0.first_mut() {
                *f = co(c)
            }
        }
        Edit::SetLast(c) => {
            if let Some(f) = ls.0.last_mut() {
                *f = co(c)
            }
        }
        Edit::Clear => ls.0.clear(),
        Edit::Reverse => ls.0.reverse(),
        Edit::Replace(cs) => *ls = ring(cs),
        Edit::Truncate(n) => ls.0.truncate(*n),
        Edit::RotateLeft(k) => {
            if !ls.0.is_empty() {
                let n = ls.0.len();
                ls.0.rotate_left(k % n)
            }
        }
        Edit::CloseNow => ls.close(),
        Edit::Dedup => ls.0.dedup(),
        Edit::Drain(a, b) => {
            let n = ls.0.len();
            if n > 0 {
                let (a, b) = (a % n, b % (n + 1));
                let (a, b) = if a <= b { (a, b) } else { (b, a) };
                ls.0.drain(a..b);
            }
        }
        Edit::RetainEvenIdx => {
            let mut k = 0usize;
            ls.0.retain(|_| {
                k += 1;
                k % 2 == 1
            });
        }
        Edit::ExtendFrom(cs) => {
            let v: Vec<Coord<T>> = cs.iter().map(co::<T>).collect();
            ls.0.extend_from_slice(&v)
        }
        Edit::SwapRemove(i) => {
            if !ls.0.is_empty() {
                let n = ls.0.len();
                ls.0.swap_remove(i % n);
            }
        }
        Edit::SplitOff(i) => {
            let n = ls.0.len();
            let _ = ls.0.split_off(i % (n + 1));
        }
        Edit::SortByX => ls.0.sort_by(|a, b| a.x.partial_cmp(&b.x).unwrap_or(std::cmp::Ordering::Equal)),
        Edit::DedupByX => ls.0.dedup_by(|a, b| a.x == b.x),
        Edit::ExtendFromWithin => {
            let n = ls.0.len();
            ls.0.extend_from_within(0..n / 2)
        }
        Edit::SwapRing(_) | Edit::TakeRing => {}
    }
}

fn is_open<T: Scalar>(ls: &LineString<T>) -> bool {
    ls.0.first() != ls.0.last()
}

/// Runs a script against one ring.  Returns Err(k) at the injected exit.
fn run_ring_script<T: Scalar>(ls: &mut LineString<T>, s: &Script, pr: &mut Probes) -> Result<(), usize> {
    for (k, (_, e)) in s.edits.iter().enumerate() {
        if s.fail_at == Some(k) {
            pr.hit("err_exits");
            if is_open(ls) {
                pr.hit("err_exit_on_open_ring");
            }
            return Err(k);
        }
        apply_edit(ls, e);
    }
    if let Some(k) = s.fail_at {
        if k >= s.edits.len() {
            pr.hit("err_exits");
            if is_open(ls) {
                pr.hit("err_exit_on_open_ring");
            }
            return Err(k);
        }
    }
    if is_open(ls) {
        pr.hit("ok_exit_on_open_ring");
    }
    Ok(())
}

fn run_slice_script<T: Scalar>(rs: &mut [LineString<T>], s: &Script, pr: &mut Probes) -> Result<(), usize> {
    let any_open = |rs: &[LineString<T>]| rs.iter().any(is_open);
    for (k, (ri, e)) in s.edits.iter().enumerate() {
        if s.fail_at == Some(k) {
            pr.hit("err_exits");
            if any_open(rs) {
                pr.hit("err_exit_on_open_ring");
            }
            return Err(k);
        }
        let n = rs.len();
        if n == 0 {
            continue;
        }
        match e {
            Edit::SwapRing(j) => rs.swap(ri % n, j % n),
            Edit::TakeRing => {
                let _ = std::mem::replace(&mut rs[ri % n], LineString::new(vec![]));
            }
            e => apply_edit(&mut rs[ri % n], e),
        }
    }
    if let Some(k) = s.fail_at {
        if k >= s.edits.len() {
            pr.hit("err_exits");
            if any_open(rs) {
                pr.hit("err_exit_on_open_ring");
            }
            return Err(k);
        }
    }
    if any_open(rs) {
        pr.hit("ok_exit_on_open_ring");
    }
    Ok(())
}

fn map_fn<T: Scalar>(f: u8) -> impl Fn(Coord<T>) -> Coord<T> + Copy {
    move |c: Coord<T>| match f % 5 {
        0 => Coord { x: c.x + T::from_code(4), y: c.y },
        1 => Coord { x: c.y, y: c.x },
        2 => Coord { x: T::zero() - c.x, y: T::zero() - c.y },
        3 => Coord { x: T::from_code(0), y: T::from_code(0) },
        _ => Coord { x: c.x + c.x, y: c.y - T::from_code(8) },
    }
}

pub struct State<T: Scalar> {
    pub polys: Vec<Polygon<T>>,
    pub rects: Vec<Rect<T>>,
}

const MAX_POLYS: usize = 4;
const MAX_RECTS: usize = 3;

fn fmt_ring<T: Scalar>(ls: &LineString<T>) -> String {
    let v: Vec<String> = ls.0.iter().map(|c| format!("({:?},{:?})", c.x, c.y)).collect();
    format!("[{}]", v.join(","))
}

impl<T: Scalar> State<T> {
    pub fn new() -> Self {
        State { polys: vec![], rects: vec![] }
    }

    fn check_poly(p: &Polygon<T>, what: &str) -> Result<(), (String, String)> {
        if is_open(p.exterior()) {
            return Err(("open-exterior".into(), format!("{what}: exterior {} is not closed", fmt_ring(p.exterior()))));
        }
        for (i, r) in p.interiors().iter().enumerate() {
            if is_open(r) {
                return Err(("open-interior".into(), format!("{what}: interior[{i}] {} is not closed", fmt_ring(r))));
            }
        }
        Ok(())
    }
    fn check_rect(r: &Rect<T>, what: &str) -> Result<(), (String, String)> {
        let (mn, mx) = (r.min(), r.max());
        if !(mn.x <= mx.x && mn.y <= mx.y) {
            return Err(("rect-min-gt-max".into(), format!("{what}: min {:?} max {:?}", mn, mx)));
        }
        Ok(())
    }

    fn check_all(&self) -> Result<(), (String, String)> {
        for (i, p) in self.polys.iter().enumerate() {
            Self::check_poly(p, &format!("polygon#{i}"))?;
        }
        for (i, r) in self.rects.iter().enumerate() {
            Self::check_rect(r, &format!("rect#{i}"))?;
        }
        Ok(())
    }

    fn slot(&self, s: usize) -> Option<usize> {
        if self.polys.is_empty() {
            None
        } else {
            Some(s % self.polys.len())
        }
    }
    fn rslot(&self, s: usize) -> Option<usize> {
        if self.rects.is_empty() {
            None
        } else {
            Some(s % self.rects.len())
        }
    }
    fn add_poly(&mut self, p: Polygon<T>) {
        if self.polys.len() >= MAX_POLYS {
            self.polys.remove(0);
        }
        self.polys.push(p);
    }

    /// Executes one step.  `Err((class, detail))` is a violation detected *by the step itself*
    /// (conversion steps); the pool invariants are checked by the caller afterwards.
    pub fn step(&mut self, op: &Op, pr: &mut Probes) -> Result<(), (String, String)> {
        pr.hit(op_name(op));
        match op {
            Op::New { ext, ints } => {
                let e = ring::<T>(ext);
                let is: Vec<LineString<T>> = ints.iter().map(|r| ring::<T>(r)).collect();
                if is_open(&e) || is.iter().any(is_open) {
                    pr.hit("open_ring_to_constructor");
                }
                self.add_poly(Polygon::new(e, is));
            }
            Op::Rebuild { slot, script } => {
                if let Some(i) = self.slot(*slot) {
                    let p = self.polys.remove(i);
                    let (mut e, mut is) = p.into_inner();
                    // free rings: apply the edits to exterior (ring index 0) or interiors (>0)
                    for (ri, ed) in &script.edits {
                        if *ri == 0 || is.is_empty() {
                            apply_edit(&mut e, ed);
                        } else {
                            let n = is.len();
                            apply_edit(&mut is[(ri - 1) % n], ed);
                        }
                    }
                    if is_open(&e) || is.iter().any(is_open) {
                        pr.hit("open_ring_to_constructor");
                    }
                    self.polys.insert(i, Polygon::new(e, is));
                }
            }
            Op::ExtMut { slot, script } => {
                if let Some(i) = self.slot(*slot) {
                    let mut s = script.clone();
                    s.fail_at = None;
                    self.polys[i].exterior_mut(|ls| {
                        let _ = run_ring_script(ls, &s, pr);
                    });
                }
            }
            Op::TryExtMut { slot, script } => {
                if let Some(i) = self.slot(*slot) {
                    let r = self.polys[i].try_exterior_mut(|ls| run_ring_script(ls, script, pr));
                    if r.is_err() {
                        pr.hit("try_err_returned");
                    }
                }
            }
            Op::IntMut { slot, script } => {
                if let Some(i) = self.slot(*slot) {
                    let mut s = script.clone();
                    s.fail_at = None;
                    self.polys[i].interiors_mut(|rs| {
                        let _ = run_slice_script(rs, &s, pr);
                    });
                }
            }
            Op::TryIntMut { slot, script } => {
                if let Some(i) = self.slot(*slot) {
                    let r = self.polys[i].try_interiors_mut(|rs| run_slice_script(rs, script, pr));
                    if r.is_err() {
                        pr.hit("try_err_returned");
                    }
                }
            }
            Op::Push { slot, ring: r, via } => {
                if let Some(i) = self.slot(*slot) {
                    let ls = ring::<T>(r);
                    if is_open(&ls) {
                        pr.hit("open_ring_to_constructor");
                    }
                    match via % 3 {
                        0 => self.polys[i].interiors_push(ls),
                        1 => self.polys[i].interiors_push(ls.0),
                        _ => {
                            let tuples: Vec<(T, T)> = ls.0.iter().map(|c| (c.x, c.y)).collect();
                            self.polys[i].interiors_push(tuples)
                        }
                    }
                }
            }
            Op::Clone { slot } => {
                if let Some(i) = self.slot(*slot) {
                    let p = self.polys[i].clone();
                    self.add_poly(p);
                }
            }
            Op::Drop { slot } => {
                if let Some(i) = self.slot(*slot) {
                    self.polys.remove(i);
                }
            }
            Op::ViaGeometry { slot, script } => {
                if let Some(i) = self.slot(*slot) {
                    let p = self.polys.remove(i);
                    let before = p.clone();
                    let mut g: Geometry<T> = p.into();
                    // round trip first: coordinates and order preserved
                    match Polygon::<T>::try_from(g.clone()) {
                        Ok(back) if back == before => {}
                        other => {
                            return Err(("conversion".into(), format!("Polygon->Geometry->Polygon changed the value: {:?} -> {:?}", before, other)))
                        }
                    }
                    if let Geometry::Polygon(pp) = &mut g {
                        let r = pp.try_exterior_mut(|ls| run_ring_script(ls, script, pr));
                        if r.is_err() {
                            pr.hit("try_err_returned");
                        }
                    }
                    let p = Polygon::<T>::try_from(g).expect("variant is Polygon");
                    self.polys.insert(i, p);
                }
            }
            Op::ViaMulti { script, try_variant } => {
                let ps = std::mem::take(&mut self.polys);
                let before = ps.clone();
                let mut mp: MultiPolygon<T> = ps.into();
                if mp.0 != before {
                    return Err(("conversion".into(), "Vec<Polygon> -> MultiPolygon changed the members".into()));
                }
                for p in mp.iter_mut() {
                    if *try_variant {
                        let r = p.try_interiors_mut(|rs| run_slice_script(rs, script, pr));
                        if r.is_err() {
                            pr.hit("try_err_returned");
                        }
                        let r = p.try_exterior_mut(|ls| run_ring_script(ls, script, pr));
                        if r.is_err() {
                            pr.hit("try_err_returned");
                        }
                    } else {
                        let mut s = script.clone();
                        s.fail_at = None;
                        p.exterior_mut(|ls| {
                            let _ = run_ring_script(ls, &s, pr);
                        });
                    }
                }
                self.polys = mp.0;
            }
            Op::MapCoords { slot, f } => {
                if let Some(i) = self.slot(*slot) {
                    self.polys[i].map_coords_in_place(map_fn::<T>(*f));
                }
            }
            Op::TryMapCoords { slot, f, fail_at } => {
                if let Some(i) = self.slot(*slot) {
                    let calls = std::cell::Cell::new(0usize);
                    let mf = map_fn::<T>(*f);
                    let r = self.polys[i].try_map_coords_in_place(|c| {
                        let k = calls.get();
                        calls.set(k + 1);
                        if Some(k) == *fail_at {
                            Err(k)
                        } else {
                            Ok(mf(c))
                        }
                    });
                    if r.is_err() {
                        pr.hit("err_exits");
                        pr.hit("try_err_returned");
                    }
                }
            }
            Op::RemoveRepeated { slot } => {
                if let Some(i) = self.slot(*slot) {
                    self.polys[i].remove_repeated_points_mut();
                }
            }
            Op::Translate { slot, d } => {
                if let Some(i) = self.slot(*slot) {
                    self.polys[i].translate_mut(T::from_code(d.0), T::from_code(d.1));
                }
            }
            Op::FloatOp { slot, k } => {
                if let Some(i) = self.slot(*slot) {
                    T::float_op(&mut self.polys[i], *k);
                }
            }
            Op::Observe => {
                let mut acc = 0usize;
                for p in &self.polys {
                    acc += p.exterior().is_closed() as usize;
                    acc += p.interiors().iter().filter(|r| r.is_closed()).count();
                    acc += p.num_rings() + p.num_interior_rings();
                    acc += p.exterior().0.len() + p.exterior().lines().count() + p.exterior().points().count();
                    let c = p.clone();
                    acc += (c == *p) as usize;
                    let _ = format!("{:?}", p).len();
                }
                for r in &self.rects {
                    let _ = (r.min(), r.max(), r.width(), r.height());
                    acc += r.to_lines().len();
                    let c = *r;
                    acc += (c == *r) as usize;
                }
                std::hint::black_box(acc);
            }
            Op::GeoDerive { slot, k } => {
                if let Some(i) = self.slot(*slot) {
                    let src = self.polys[i].clone();
                    let kk = *k;
                    match std::panic::catch_unwind(std::panic::AssertUnwindSafe(|| T::derive(&src, kk))) {
                        Ok((ps, rs)) => {
                            for p in ps.into_iter().take(6) {
                                // a geo algorithm that answers with non-finite coordinates (overflow on extreme input)
                                // is outside the finite domain of the property: NaN != NaN makes "closed" unsatisfiable
                                if p.exterior().0.iter().chain(p.interiors().iter().flat_map(|r| r.0.iter())).any(|c| !c.x.finite() || !c.y.finite()) {
                                    pr.hit("derive_non_finite_result");
                                    continue;
                                }
                                // judged at once (the pool only keeps the last few)
                                Self::check_poly(&p, "polygon returned by a geo algorithm")?;
                                self.add_poly(p);
                            }
                            for r in rs {
                                // judged at once (the pool only keeps the last few)
                                Self::check_rect(&r, "Rect returned by bounding_rect()")?;
                                if self.rects.len() >= MAX_RECTS {
                                    self.rects.remove(0);
                                }
                                self.rects.push(r);
                            }
                        }
                        Err(_) => {
                            let _ = crate::cli::take_last_panic();
                            pr.hit("derive_panicked");
                        }
                    }
                }
            }
            Op::Orient { slot, k } => {
                if let Some(i) = self.slot(*slot) {
                    // Orient is only implemented for float-ish scalars through Winding;
                    // use the LineString-level winding mutators, which exist for every CoordNum
                    // with a kernel, through exterior_mut.
                    let _ = k;
                    self.polys[i].exterior_mut(|ls| ls.0.reverse());
                    self.polys[i].interiors_mut(|rs| rs.iter_mut().for_each(|r| r.0.reverse()));
                }
            }
            Op::RectNew { a, b } => {
                let r = Rect::new(co::<T>(a), co::<T>(b));
                if a.0 > b.0 || a.1 > b.1 {
                    pr.hit("rect_unordered_corners");
                }
                if self.rects.len() >= MAX_RECTS {
                    self.rects.remove(0);
                }
                self.rects.push(r);
            }
            Op::RectSet { slot, which_max, c } => {
                if let Some(i) = self.rslot(*slot) {
                    let r = &mut self.rects[i];
                    let c = co::<T>(c);
                    // only *valid* arguments: an invalid one panics by contract (and a panic is
                    // outside the statement), so clamp into the valid range first
                    if *which_max {
                        let mn = r.min();
                        let c = Coord { x: if c.x < mn.x { mn.x } else { c.x }, y: if c.y < mn.y { mn.y } else { c.y } };
                        r.set_max(c);
                    } else {
                        let mx = r.max();
                        let c = Coord { x: if c.x > mx.x { mx.x } else { c.x }, y: if c.y > mx.y { mx.y } else { c.y } };
                        r.set_min(c);
                    }
                }
            }
            Op::RectSetRaw { slot, which_max, c } => {
                if let Some(i) = self.rslot(*slot) {
                    let mut r = self.rects[i];
                    let c = co::<T>(c);
                    let wm = *which_max;
                    let res = std::panic::catch_unwind(std::panic::AssertUnwindSafe(|| {
                        if wm {
                            r.set_max(c)
                        } else {
                            r.set_min(c)
                        }
                        r
                    }));
                    match res {
                        Ok(r2) => {
                            pr.hit("rect_set_raw_returned");
                            self.rects[i] = r2;
                        }
                        Err(_) => {
                            let _ = crate::cli::take_last_panic();
                            pr.hit("rect_set_raw_panicked");
                            self.rects.remove(i);
                        }
                    }
                }
            }
            Op::RectMap { slot, f, fail_at } => {
                if let Some(i) = self.rslot(*slot) {
                    let mf = map_fn::<T>(*f);
                    let mut r = self.rects[i];
                    if r.min().x.is_extreme() || r.min().y.is_extreme() || r.max().x.is_extreme() || r.max().y.is_extreme() {
                        // arithmetic on extreme corners would leave the finite domain
                        pr.hit("extreme_rect_not_mapped");
                        return Ok(());
                    }
                    let fa = *fail_at;
                    // arithmetic on extreme integer corners may overflow and panic: not judged
                    let res = std::panic::catch_unwind(std::panic::AssertUnwindSafe(move || {
                        let mut errs = 0u32;
                        match fa {
                            None => r.map_coords_in_place(mf),
                            Some(fa) => {
                                let calls = std::cell::Cell::new(0usize);
                                let rr = r.try_map_coords_in_place(|c| {
                                    let k = calls.get();
                                    calls.set(k + 1);
                                    if k == fa {
                                        Err(k)
                                    } else {
                                        Ok(mf(c))
                                    }
                                });
                                if rr.is_err() {
                                    errs += 1;
                                }
                            }
                        }
                        (r, errs)
                    }));
                    match res {
                        Ok((r2, errs)) => {
                            self.rects[i] = r2;
                            if errs > 0 {
                                pr.hit("err_exits");
                            }
                        }
                        Err(_) => {
                            let _ = crate::cli::take_last_panic();
                            pr.hit("rect_map_panicked");
                            self.rects.remove(i);
                        }
                    }
                }
            }
            Op::RectSplit { slot, y_axis } => {
                if let Some(i) = self.rslot(*slot) {
                    let r = self.rects[i];
                    let ya = *y_axis;
                    // integer overflow in the midpoint panics (with overflow checks): not judged
                    match std::panic::catch_unwind(std::panic::AssertUnwindSafe(move || if ya { r.split_y() } else { r.split_x() })) {
                        Ok(halves) => {
                            for h in halves {
                                // every half is judged at once ...
                                Self::check_rect(&h, "half returned by Rect::split")?;
                                // ... but only all-finite halves live on: the statement is about
                                // finite coordinates, and inf - inf = NaN later would not be
                                let fin = h.min().x.finite() && h.min().y.finite() && h.max().x.finite() && h.max().y.finite();
                                if !fin {
                                    pr.hit("non_finite_half_not_pooled");
                                    continue;
                                }
                                if self.rects.len() >= MAX_RECTS {
                                    self.rects.remove(0);
                                }
                                self.rects.push(h);
                            }
                        }
                        Err(_) => {
                            let _ = crate::cli::take_last_panic();
                            pr.hit("rect_split_panicked");
                        }
                    }
                }
            }
            Op::RectToPolygon { slot, via } => {
                if let Some(i) = self.rslot(*slot) {
                    let r = self.rects[i];
                    if r.min().x.is_extreme() || r.min().y.is_extreme() || r.max().x.is_extreme() || r.max().y.is_extreme() {
                        pr.hit("extreme_rect_not_converted");
                        return Ok(());
                    }
                    let p: Polygon<T> = if via % 2 == 0 { r.to_polygon() } else { Polygon::from(r) };
                    let (mn, mx) = (r.min(), r.max());
                    let ccw = [
                        Coord { x: mn.x, y: mn.y },
                        Coord { x: mx.x, y: mn.y },
                        Coord { x: mx.x, y: mx.y },
                        Coord { x: mn.x, y: mx.y },
                    ];
                    let e = &p.exterior().0;
                    let ok = e.len() == 5
                        && e[0] == e[4]
                        && p.interiors().is_empty()
                        && (0..4).any(|rot| (0..4).all(|k| e[k] == ccw[(k + rot) % 4]));
                    if !ok {
                        return Err(("conversion".into(), format!("Rect{{min:{:?},max:{:?}}} -> Polygon gave {}", mn, mx, fmt_ring(p.exterior()))));
                    }
                    // Rect::to_lines is the same ring as segments
                    if via % 2 == 0 {
                        let ls: Vec<Line<T>> = p.exterior().lines().collect();
                        if ls.as_slice() != r.to_lines().as_slice() {
                            return Err(("conversion".into(), format!("Rect::to_lines {:?} differs from the to_polygon ring {:?}", r.to_lines(), ls)));
                        }
                    }
                    self.add_poly(p);
                }
            }
            Op::TriangleConv { a, b, c } => {
                // Triangle::new documents that it may reorder its arguments to a
                // counter-clockwise winding; the conversion claim is about the vertices the
                // Triangle *holds*, in the order it holds them.
                // half of the time through the tuple constructor / array conversion, which keep
                // the given (possibly clockwise) order
                let t = if (a.0 + b.1) % 2 == 0 { Triangle::new(co::<T>(a), co::<T>(b), co::<T>(c)) } else { Triangle(co::<T>(a), co::<T>(b), co::<T>(c)) };
                let (a, b, c) = (t.0, t.1, t.2);
                // into the enum and back, and through a collection
                let g: Geometry<T> = t.into();
                match Triangle::<T>::try_from(g.clone()) {
                    Ok(back) if back == t => {}
                    other => return Err(("conversion".into(), format!("Triangle({:?},{:?},{:?}) -> Geometry -> Triangle gave {:?}", a, b, c, other))),
                }
                let gc = GeometryCollection::from(vec![t]);
                if gc.0 != vec![Geometry::Triangle(t)] {
                    return Err(("conversion".into(), format!("Vec<Triangle> -> GeometryCollection changed Triangle({:?},{:?},{:?}) into {:?}", a, b, c, gc.0)));
                }
                for via in 0..2 {
                    let p: Polygon<T> = if via == 0 { t.to_polygon() } else { Polygon::from(t) };
                    if p.exterior().0 != vec![a, b, c, a] || !p.interiors().is_empty() {
                        return Err((
                            "conversion".into(),
                            format!("Triangle({:?},{:?},{:?}) -> Polygon gave {}", a, b, c, fmt_ring(p.exterior())),
                        ));
                    }
                }
                if t.to_array() != [a, b, c] {
                    return Err(("conversion".into(), "Triangle::to_array reordered".into()));
                }
                if t.to_lines() != [Line::new(a, b), Line::new(b, c), Line::new(c, a)] {
                    return Err(("conversion".into(), "Triangle::to_lines reordered".into()));
                }
                let t2: Triangle<T> = [a, b, c].into();
                if t2 != Triangle(a, b, c) {
                    return Err(("conversion".into(), "[Coord;3] -> Triangle reordered".into()));
                }
                self.add_poly(t.to_polygon());
            }
            Op::LineConv { a, b } => {
                let (a, b) = (co::<T>(a), co::<T>(b));
                let l = Line::new(a, b);
                let ls1: LineString<T> = l.into();
                let ls2: LineString<T> = (&l).into();
                if ls1.0 != vec![a, b] || ls2.0 != vec![a, b] {
                    return Err(("conversion".into(), format!("Line({:?},{:?}) -> LineString gave {}", a, b, fmt_ring(&ls1))));
                }
                let l2: Line<T> = [(a.x, a.y), (b.x, b.y)].into();
                if l2 != l {
                    return Err(("conversion".into(), "[(T,T);2] -> Line reordered".into()));
                }
            }
            Op::EnumRoundTrip { kind, cs } => {
                enum_round_trip::<T>(*kind, cs)?;
            }
            Op::Macros { k } => {
                macros_step::<T>(*k)?;
            }
            Op::ArbitraryCtor { bytes, kind } => {
                let (ps, rs, dropped) = T::arbitrary(bytes, *kind);
                if dropped > 0 {
                    pr.hit("arbitrary_non_finite_dropped");
                }
                if !ps.is_empty() || !rs.is_empty() {
                    pr.hit("arbitrary_constructed");
                }
                for p in ps.into_iter().take(4) {
                    Self::check_poly(&p, "polygon built by an Arbitrary constructor")?;
                    // only short rings of moderate magnitude live on in the pool (later geo-level steps -
                    // densify, hulls, boolean ops - must not be handed 1e300-sized or 1000-vertex garbage)
                    let moderate = |c: &geo_types::Coord<T>| [c.x, c.y].iter().all(|v| {
                        let f = v.to_f64().unwrap_or(0.0).abs();
                        f == 0.0 || (1e-3..=1e4).contains(&f)
                    });
                    if p.exterior().0.len() <= 12 && p.interiors().len() <= 3 && p.exterior().0.iter().chain(p.interiors().iter().flat_map(|r| r.0.iter())).all(moderate) {
                        self.add_poly(p);
                    }
                }
                for r in rs.into_iter().take(3) {
                    Self::check_rect(&r, "Rect built by an Arbitrary constructor")?;
                    // like the polygons: only corners of moderate magnitude live on in the pool (an f32 Rect of
                    // 1e38 turned into a polygon and handed to a geo algorithm overflows to NaN, and NaN != NaN
                    // makes "closed" unsatisfiable - outside the finite domain of the property)
                    let moderate = [r.min().x, r.min().y, r.max().x, r.max().y].iter().all(|v| {
                        let f = v.to_f64().unwrap_or(0.0).abs();
                        f == 0.0 || (1e-3..=1e4).contains(&f)
                    });
                    if !moderate {
                        continue;
                    }
                    if self.rects.len() >= MAX_RECTS {
                        self.rects.remove(0);
                    }
                    self.rects.push(r);
                }
            }
            Op::LsClose { ring: r } => {
                let mut ls = ring::<T>(r);
                let before = ls.0.clone();
                ls.close();
                if is_open(&ls) {
                    return Err(("open-linestring-after-close".into(), format!("LineString::close left {} open", fmt_ring(&ls))));
                }
                // close only ever appends the first coordinate
                if ls.0.len() < before.len() || ls.0[..before.len()] != before[..] {
                    return Err(("conversion".into(), "LineString::close changed existing coordinates".into()));
                }
            }
        }
        Ok(())
    }
}

fn enum_round_trip<T: Scalar>(kind: u8, cs: &[C]) -> Result<(), (String, String)> {
    let pts: Vec<Coord<T>> = cs.iter().map(co::<T>).collect();
    let c0 = pts.first().copied().unwrap_or(Coord { x: T::zero(), y: T::zero() });
    let c1 = pts.get(1).copied().unwrap_or(c0);
    let c2 = pts.get(2).copied().unwrap_or(c1);
    let ls = LineString::new(pts.clone());
    let poly = Polygon::new(ls.clone(), vec![LineString::new(pts.iter().rev().copied().collect())]);
    macro_rules! rt {
        ($ty:ident, $v:expr) => {{
            let v: $ty<T> = $v;
            let g: Geometry<T> = v.clone().into();
            let variant_ok = matches!(g, Geometry::$ty(_));
            let back = $ty::<T>::try_from(g.clone());
            match back {
                Ok(b) if b == v && variant_ok => {}
                other => {
                    return Err((
                        "conversion".to_string(),
                        format!("{} -> Geometry -> {} changed the value: {:?} -> {:?}", stringify!($ty), stringify!($ty), v, other),
                    ))
                }
            }
            // wrong-variant conversion must be an Err, never a silently different value
            let wrong: Geometry<T> = if stringify!($ty) == "Point" { Geometry::Line(Line::new(c0, c1)) } else { Geometry::Point(Point(c0)) };
            if $ty::<T>::try_from(wrong).is_ok() {
                return Err(("conversion".to_string(), format!("TryFrom<Geometry> for {} accepted another variant", stringify!($ty))));
            }
            // and through a GeometryCollection
            let gc: GeometryCollection<T> = GeometryCollection::from(v.clone());
            if gc.0.len() != 1 || gc.0[0] != g {
                return Err(("conversion".to_string(), format!("{} -> GeometryCollection changed the value", stringify!($ty))));
            }
        }};
    }
    match kind % 10 {
        0 => rt!(Point, Point(c0)),
        1 => rt!(Line, Line::new(c0, c1)),
        2 => rt!(LineString, ls),
        3 => rt!(Polygon, poly),
        4 => rt!(MultiPoint, MultiPoint::new(pts.iter().map(|c| Point(*c)).collect())),
        5 => rt!(MultiLineString, MultiLineString::new(vec![ls.clone(), LineString::new(vec![c1, c0])])),
        6 => rt!(MultiPolygon, MultiPolygon::new(vec![poly.clone(), Polygon::new(ls, vec![])])),
        7 => rt!(Rect, Rect::new(c0, c1)),
        // the tuple constructor keeps the given (possibly clockwise) vertex order
        8 => rt!(Triangle, Triangle(c0, c1, c2)),
        _ => {
            let v = GeometryCollection::new_from(vec![Geometry::Point(Point(c0)), Geometry::Polygon(poly)]);
            let g = Geometry::GeometryCollection(v.clone());
            match g {
                Geometry::GeometryCollection(b) if b == v => {}
                other => return Err(("conversion".to_string(), format!("GeometryCollection -> Geometry -> GeometryCollection changed the value: {:?} -> {:?}", v, other))),
            }
        }
    }
    Ok(())
}

fn macros_step<T: Scalar>(k: u8) -> Result<(), (String, String)> {
    let z = T::from_code(0);
    let o = T::from_code(4);
    let t = T::from_code(8);
    let p: Polygon<T> = match k % 4 {
        0 => polygon![(x: z, y: z), (x: t, y: z), (x: t, y: t)],
        1 => polygon![
            exterior: [(x: z, y: z), (x: t, y: z), (x: t, y: t), (x: z, y: t)],
            interiors: [[(x: o, y: o), (x: o, y: z), (x: z, y: o)]],
        ],
        2 => polygon![],
        _ => polygon![(x: z, y: z)],
    };
    State::<T>::check_poly(&p, "polygon! macro")?;
    if k % 4 == 0 {
        let w: Polygon<f64> = geo_types::wkt! { POLYGON((0. 0.,2. 0.,2. 2.),(0.5 0.5,1. 0.5,1. 1.)) };
        State::<f64>::check_poly(&w, "wkt! macro")?;
    }
    Ok(())
}

// ---------------------------------------------------------------------------------------------
// running a history
// ---------------------------------------------------------------------------------------------

pub struct RunResult {
    pub violation: Option<Violation>,
    pub probes: Probes,
    pub steps: usize,
}

pub fn run_ops<T: Scalar>(ops: &[Op]) -> RunResult {
    let mut st = State::<T>::new();
    let mut pr = Probes::default();
    for (i, op) in ops.iter().enumerate() {
        let r = st.step(op, &mut pr).and_then(|_| st.check_all());
        if let Err((class, detail)) = r {
            return RunResult {
                violation: Some(Violation { step: i, op: op_name(op).to_string(), class, detail }),
                probes: pr,
                steps: i + 1,
            };
        }
    }
    RunResult { violation: None, probes: pr, steps: ops.len() }
}

pub fn run_history(h: &History) -> RunResult {
    match h.scalar.as_str() {
        "f64" => run_ops::<f64>(&h.ops),
        "f32" => run_ops::<f32>(&h.ops),
        "i32" => run_ops::<i32>(&h.ops),
        _ => run_ops::<i64>(&h.ops),
    }
}

// ---------------------------------------------------------------------------------------------
// generation
// ---------------------------------------------------------------------------------------------

/// per-history swarm knobs: most histories are small and dense in coincidences, some have long
/// rings, many holes, long histories or far / large coordinates
#[derive(Clone, Copy, Default)]
pub struct Swarm {
    pub long_rings: bool,
    pub far: bool,
    pub tiny: bool,
}
thread_local! {
    static SWARM: std::cell::Cell<Swarm> = const { std::cell::Cell::new(Swarm { long_rings: false, far: false, tiny: false }) };
}

fn gen_c(rng: &mut Rng) -> C {
    let sw = SWARM.with(|s| s.get());
    if sw.tiny {
        // differences so small that their products underflow to zero
        (TINY + rng.range(-3, 4), TINY + rng.range(-3, 4))
    } else if sw.far {
        // large magnitudes, still with coincidences; differences reach 2^17, so 32-bit
        // products of differences wrap (the build has overflow checks off, like a release build)
        let base = *rng.pick(&[-(1i64 << 16), 0, 1 << 15, (1 << 16) - 3]);
        (base + rng.range(-2, 3), base / 2 + rng.range(-2, 3))
    } else {
        (rng.range(-4, 8), rng.range(-4, 8))
    }
}

/// Rings are deliberately open, empty, single-point, already closed, or closed with repeats.
fn gen_ring(rng: &mut Rng) -> Vec<C> {
    let sw = SWARM.with(|s| s.get());
    if sw.long_rings && rng.chance(1, 2) {
        // long rings: 9..130 coordinates, closed or open
        let span = *rng.pick(&[8usize, 24, 56, 120, 250]);
        let n = 9 + rng.below(span);
        let mut v: Vec<C> = (0..n).map(|_| gen_c(rng)).collect();
        if rng.chance(1, 2) {
            let f = v[0];
            v.push(f);
        }
        return v;
    }
    match rng.below(10) {
        0 => vec![],
        1 => vec![gen_c(rng)],
        2 => {
            let a = gen_c(rng);
            vec![a, a]
        }
        3..=5 => {
            // closed
            let n = 2 + rng.below(5);
            let mut v: Vec<C> = (0..n).map(|_| gen_c(rng)).collect();
            let f = v[0];
            v.push(f);
            v
        }
        _ => {
            let n = 2 + rng.below(6);
            (0..n).map(|_| gen_c(rng)).collect()
        }
    }
}

fn gen_edit(rng: &mut Rng, interiors: bool) -> Edit {
    let k = rng.below(if interiors { 27 } else { 25 });
    match k {
        0 | 1 => Edit::Push(gen_c(rng)),
        2 => Edit::Pop,
        3 => Edit::Insert(rng.below(8), gen_c(rng)),
        4 => Edit::Remove(rng.below(8)),
        5 => Edit::Set(rng.below(8), gen_c(rng)),
        6 | 7 => Edit::SetFirst(gen_c(rng)),
        8 | 9 => Edit::SetLast(gen_c(rng)),
        10 => Edit::Clear,
        11 => Edit::Reverse,
        12 => Edit::Replace(gen_ring(rng)),
        13 => Edit::Truncate(rng.below(5)),
        14 => Edit::RotateLeft(1 + rng.below(4)),
        15 => Edit::CloseNow,
        16 => Edit::Dedup,
        17 => Edit::Drain(rng.below(8), rng.below(8)),
        18 => Edit::RetainEvenIdx,
        19 => Edit::ExtendFrom(gen_ring(rng)),
        20 => Edit::SwapRemove(rng.below(8)),
        21 => Edit::SplitOff(rng.below(8)),
        22 => Edit::SortByX,
        23 => Edit::DedupByX,
        24 => Edit::ExtendFromWithin,
        25 => Edit::SwapRing(rng.below(4)),
        _ => Edit::TakeRing,
    }
}

fn gen_script(rng: &mut Rng, interiors: bool, fallible: bool) -> Script {
    let n = rng.below(6);
    let edits: Vec<(usize, Edit)> = (0..n).map(|_| (rng.below(4), gen_edit(rng, interiors))).collect();
    let fail_at = if fallible && rng.chance(3, 4) {
        // biased towards instants at which the ring is open: right after an edit of the first or
        // last coordinate
        let hot: Vec<usize> = edits
            .iter()
            .enumerate()
            .filter(|(_, (_, e))| matches!(e, Edit::SetFirst(_) | Edit::SetLast(_) | Edit::Push(_) | Edit::Pop | Edit::Reverse | Edit::Replace(_) | Edit::RotateLeft(_)))
            .map(|(i, _)| i + 1)
            .collect();
        if !hot.is_empty() && rng.chance(2, 3) {
            Some(*rng.pick(&hot))
        } else {
            Some(rng.below(n + 1))
        }
    } else {
        None
    };
    Script { edits, fail_at }
}

pub fn gen_op(rng: &mut Rng) -> Op {
    let slot = rng.below(4);
    match rng.below(40) {
        0..=3 => Op::New { ext: gen_ring(rng), ints: (0..rng.below(3)).map(|_| gen_ring(rng)).collect() },
        4 | 5 => Op::Rebuild { slot, script: gen_script(rng, false, false) },
        6..=8 => Op::ExtMut { slot, script: gen_script(rng, false, false) },
        9..=13 => Op::TryExtMut { slot, script: gen_script(rng, false, true) },
        14 | 15 => Op::IntMut { slot, script: gen_script(rng, true, false) },
        16..=19 => Op::TryIntMut { slot, script: gen_script(rng, true, true) },
        20 | 21 => Op::Push { slot, ring: gen_ring(rng), via: rng.below(3) as u8 },
        22 => Op::Clone { slot },
        23 => Op::Drop { slot },
        24 => Op::ViaGeometry { slot, script: gen_script(rng, false, true) },
        25 => Op::ViaMulti { script: gen_script(rng, true, true), try_variant: rng.chance(1, 2) },
        26 => Op::MapCoords { slot, f: rng.below(5) as u8 },
        27 | 28 => Op::TryMapCoords { slot, f: rng.below(5) as u8, fail_at: if rng.chance(3, 4) { Some(rng.below(8)) } else { None } },
        29 => Op::RemoveRepeated { slot },
        30 => Op::Translate { slot, d: gen_c(rng) },
        31 => Op::FloatOp { slot, k: rng.below(4) as u8 },
        32 => {
            if rng.chance(1, 3) {
                Op::Observe
            } else if rng.chance(1, 2) {
                Op::Orient { slot, k: rng.below(4) as u8 }
            } else {
                Op::GeoDerive { slot, k: rng.below(18) as u8 }
            }
        }
        33 => {
            if rng.chance(1, 10) {
                // extreme corners (type maxima): spans that overflow the scalar
                Op::RectNew { a: (EXT + rng.below(8) as i64, EXT + rng.below(8) as i64), b: (EXT + rng.below(8) as i64, EXT + rng.below(8) as i64) }
            } else {
                Op::RectNew { a: gen_c(rng), b: gen_c(rng) }
            }
        }
        34 => {
            if rng.chance(1, 2) {
                Op::RectSet { slot, which_max: rng.chance(1, 2), c: gen_c(rng) }
            } else {
                let c = if rng.chance(1, 8) { (EXT + rng.below(8) as i64, EXT + rng.below(8) as i64) } else { gen_c(rng) };
                Op::RectSetRaw { slot, which_max: rng.chance(1, 2), c }
            }
        }
        35 => Op::RectMap { slot, f: rng.below(5) as u8, fail_at: if rng.chance(1, 2) { Some(rng.below(3)) } else { None } },
        36 => {
            if rng.chance(1, 2) {
                Op::RectToPolygon { slot, via: rng.below(2) as u8 }
            } else {
                Op::RectSplit { slot, y_axis: rng.chance(1, 2) }
            }
        }
        37 => match rng.below(2) {
            0 => Op::TriangleConv { a: gen_c(rng), b: gen_c(rng), c: gen_c(rng) },
            _ => Op::LineConv { a: gen_c(rng), b: gen_c(rng) },
        },
        38 => Op::EnumRoundTrip { kind: rng.below(10) as u8, cs: gen_ring(rng) },
        _ => match rng.below(3) {
            0 => Op::Macros { k: rng.below(4) as u8 },
            1 => Op::LsClose { ring: gen_ring(rng) },
            _ => {
                // fuzzer bytes: mostly small "nice" doubles (exponent bytes 0x3f / 0x40 / 0xc0), sometimes raw
                let n = rng.below(160);
                let raw = rng.chance(1, 4);
                let bytes: Vec<u8> = (0..n)
                    .map(|i| {
                        if raw {
                            rng.below(256) as u8
                        } else {
                            match i % 8 {
                                7 => *rng.pick(&[0x3fu8, 0x40, 0xc0, 0xbf, 0x00]),
                                6 => (rng.below(16) * 16) as u8,
                                _ => {
                                    if rng.chance(1, 6) {
                                        rng.below(256) as u8
                                    } else {
                                        0
                                    }
                                }
                            }
                        }
                    })
                    .collect();
                Op::ArbitraryCtor { bytes, kind: rng.below(4) as u8 }
            }
        },
    }
}

pub fn gen_history(seed: u64) -> History {
    let mut rng = Rng::stream(seed, "c18-workload");
    let scalar = *rng.pick(&["f64", "f64", "f32", "i32", "i64"]);
    // swarm: per-history knobs
    let tiny = rng.chance(1, 12);
    let sw = Swarm { long_rings: rng.chance(1, 8), far: !tiny && rng.chance(1, 10), tiny };
    SWARM.with(|s| s.set(sw));
    let n = if rng.chance(1, 12) { 17 + rng.below(60) } else { 2 + rng.below(15) };
    let mut ops = Vec::with_capacity(n + 1);
    let nints = if rng.chance(1, 10) { *rng.pick(&[3usize, 4, 6, 9, 17, 33]) } else { rng.below(3) };
    ops.push(Op::New { ext: gen_ring(&mut rng), ints: (0..nints).map(|_| gen_ring(&mut rng)).collect() });
    if rng.chance(1, 3) {
        ops.push(Op::RectNew { a: gen_c(&mut rng), b: gen_c(&mut rng) });
    }
    for _ in 0..n {
        ops.push(gen_op(&mut rng));
    }
    SWARM.with(|s| s.set(Swarm::default()));
    History { scalar: scalar.to_string(), ops }
}

// ---------------------------------------------------------------------------------------------
// fault enumeration: every exit position of every fallible step of a history
// ---------------------------------------------------------------------------------------------

/// Yields the variants of `h` in which exactly one fallible step's exit position is replaced by
/// each k in 0..=n (and by "no fault").
pub fn fault_variants(h: &History) -> Vec<History> {
    let mut out = vec![];
    for (i, op) in h.ops.iter().enumerate() {
        let n = match op {
            Op::TryExtMut { script, .. } | Op::TryIntMut { script, .. } | Op::ViaGeometry { script, .. } | Op::ViaMulti { script, .. } => script.edits.len() + 1,
            Op::TryMapCoords { .. } => 9,
            Op::RectMap { .. } => 3,
            _ => continue,
        };
        for k in 0..=n {
            let fa = if k == n { None } else { Some(k) };
            let mut h2 = h.clone();
            match &mut h2.ops[i] {
                Op::TryExtMut { script, .. } | Op::TryIntMut { script, .. } | Op::ViaGeometry { script, .. } | Op::ViaMulti { script, .. } => script.fail_at = fa,
                Op::TryMapCoords { fail_at, .. } | Op::RectMap { fail_at, .. } => *fail_at = fa,
                _ => {}
            }
            if h2.ops[i] != h.ops[i] {
                out.push(h2);
            }
        }
    }
    out
}

// ---------------------------------------------------------------------------------------------
// minimisation (same violation class must persist)
// ---------------------------------------------------------------------------------------------

fn fails_same(h: &History, class: &str) -> Option<Violation> {
    let r = std::panic::catch_unwind(|| run_history(h)).ok()?;
    r.violation.filter(|v| v.class == class)
}

pub fn minimise(h: &History, v: &Violation) -> (History, Violation) {
    let mut cur = h.clone();
    let mut curv = v.clone();
    cur.ops.truncate(curv.step + 1);
    // 1. drop ops (one at a time, to a fixed point)
    loop {
        let mut changed = false;
        let mut i = 0;
        while i < cur.ops.len() {
            let mut t = cur.clone();
            t.ops.remove(i);
            if let Some(v2) = fails_same(&t, &curv.class) {
                cur = t;
                cur.ops.truncate(v2.step + 1);
                curv = v2;
                changed = true;
            } else {
                i += 1;
            }
        }
        if !changed {
            break;
        }
    }
    // 2. shorten scripts / rings
    loop {
        let mut changed = false;
        for i in 0..cur.ops.len() {
            for cand in simplify_op(&cur.ops[i]) {
                let mut t = cur.clone();
                t.ops[i] = cand;
                if let Some(v2) = fails_same(&t, &curv.class) {
                    cur = t;
                    curv = v2;
                    changed = true;
                    break;
                }
            }
        }
        if !changed {
            break;
        }
    }
    // 3. simplest scalar
    for s in ["f64", "i32"] {
        if cur.scalar != s {
            let mut t = cur.clone();
            t.scalar = s.to_string();
            if let Some(v2) = fails_same(&t, &curv.class) {
                cur = t;
                curv = v2;
                break;
            }
        }
    }
    (cur, curv)
}

fn simplify_script(s: &Script) -> Vec<Script> {
    let mut out = vec![];
    for i in 0..s.edits.len() {
        let mut t = s.clone();
        t.edits.remove(i);
        if let Some(k) = t.fail_at {
            if k > i {
                t.fail_at = Some(k - 1);
            }
        }
        out.push(t);
    }
    for i in 0..s.edits.len() {
        if let (ri, Edit::Replace(cs)) = &s.edits[i] {
            for j in 0..cs.len() {
                let mut c2 = cs.clone();
                c2.remove(j);
                let mut t = s.clone();
                t.edits[i] = (*ri, Edit::Replace(c2));
                out.push(t);
            }
        }
    }
    out
}

fn simplify_ring(r: &[C]) -> Vec<Vec<C>> {
    let mut out = vec![];
    for j in 0..r.len() {
        let mut c = r.to_vec();
        c.remove(j);
        out.push(c);
    }
    out
}

fn simplify_op(op: &Op) -> Vec<Op> {
    let mut out = vec![];
    match op {
        Op::New { ext, ints } => {
            for i in 0..ints.len() {
                let mut t = ints.clone();
                t.remove(i);
                out.push(Op::New { ext: ext.clone(), ints: t });
            }
            for e in simplify_ring(ext) {
                out.push(Op::New { ext: e, ints: ints.clone() });
            }
            for i in 0..ints.len() {
                for r in simplify_ring(&ints[i]) {
                    let mut t = ints.clone();
                    t[i] = r;
                    out.push(Op::New { ext: ext.clone(), ints: t });
                }
            }
        }
        Op::Rebuild { slot, script } => out.extend(simplify_script(script).into_iter().map(|s| Op::Rebuild { slot: *slot, script: s })),
        Op::ExtMut { slot, script } => out.extend(simplify_script(script).into_iter().map(|s| Op::ExtMut { slot: *slot, script: s })),
        Op::TryExtMut { slot, script } => out.extend(simplify_script(script).into_iter().map(|s| Op::TryExtMut { slot: *slot, script: s })),
        Op::IntMut { slot, script } => out.extend(simplify_script(script).into_iter().map(|s| Op::IntMut { slot: *slot, script: s })),
        Op::TryIntMut { slot, script } => out.extend(simplify_script(script).into_iter().map(|s| Op::TryIntMut { slot: *slot, script: s })),
        Op::ViaGeometry { slot, script } => {
            out.push(Op::TryExtMut { slot: *slot, script: script.clone() });
            out.extend(simplify_script(script).into_iter().map(|s| Op::ViaGeometry { slot: *slot, script: s }))
        }
        Op::ViaMulti { script, try_variant } => out.extend(simplify_script(script).into_iter().map(|s| Op::ViaMulti { script: s, try_variant: *try_variant })),
        Op::Push { slot, ring, via } => {
            for r in simplify_ring(ring) {
                out.push(Op::Push { slot: *slot, ring: r, via: *via });
            }
            if *via != 0 {
                out.push(Op::Push { slot: *slot, ring: ring.clone(), via: 0 });
            }
        }
        Op::EnumRoundTrip { kind, cs } => {
            for r in simplify_ring(cs) {
                out.push(Op::EnumRoundTrip { kind: *kind, cs: r });
            }
        }
        Op::LsClose { ring } => {
            for r in simplify_ring(ring) {
                out.push(Op::LsClose { ring: r });
            }
        }
        _ => {}
    }
    out
}
