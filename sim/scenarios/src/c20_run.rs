//! `sched` engine for C20: one scenario (operation, input, overlay knobs) is executed once under
//! the sequential reference configuration and under several variant configurations of
//! (pool size, schedule, hash keys, heap address order, history prefix, caller position); every
//! outcome must be byte-equal to the reference outcome.

use crate::c20_inputs::{self as inputs, Input, InputSpec};
use crate::c20_ops::{self as ops, OpDef};
use crate::cli::*;
use crate::seams;
use rayon_core::sim::{self, Decision, Report, Strategy};
use serde::{Deserialize, Serialize};
use serde_json::{json, Value};
use simkit::rng::{mix, name_hash};
use simkit::{fnv1a, Out, Rng};
use std::collections::BTreeMap;
use std::sync::Mutex;
use std::time::Instant;

// ---------------------------------------------------------------------------------------------
// scenario and configuration (all serialisable: a replay file is exactly these)
// ---------------------------------------------------------------------------------------------

#[derive(Serialize, Deserialize, Clone, Debug, PartialEq)]
pub struct Knobs {
    /// 0 = shipped (no override); 1 Auto, 2 List, 3 Tree, 4 Frag
    pub strategy: usize,
    /// usize::MAX = solver multithreading off
    pub par_sort_min_size: usize,
}

#[derive(Serialize, Deserialize, Clone, Debug, PartialEq)]
pub struct Scenario {
    pub op: String,
    pub input: InputSpec,
    pub knobs: Knobs,
}

#[derive(Serialize, Deserialize, Clone, Debug, PartialEq)]
pub struct Cfg {
    pub workers: usize,
    /// "sequential" | "uniform" | "steal-eager" | "steal-rare" | "pct1" | "pct2" | "pct3"
    pub strategy: String,
    pub sched_seed: u64,
    pub hash_seed: u64,
    /// None = reference address order
    pub addr_seed: Option<u64>,
    /// operations executed on the same simulated threads before the call under test
    pub prefix: Vec<String>,
    /// call made from inside the pool (`install`) instead of from an external thread
    pub from_worker: bool,
    /// recorded decisions to feed back (replay / minimisation)
    #[serde(default)]
    pub decisions: Option<Vec<u32>>,
    /// the call under test is made twice on the same thread; the *second* result is the outcome
    #[serde(default)]
    pub repeat: bool,
    /// number of external caller threads making the same call concurrently into the one pool
    /// (0 and 1 both mean a single caller); every caller's result is compared
    #[serde(default)]
    pub callers: usize,
    /// the additional concurrent callers work on OTHER inputs of the same family and size (their
    /// results are not judged; caller 0 must still get the reference outcome)
    #[serde(default)]
    pub callers_other: bool,
    /// in-place mutation history: the operation first runs on a copy of the input with every
    /// ring reversed, then that copy's coordinates are overwritten IN PLACE (same buffers, same
    /// addresses, same lengths and bounding boxes) with the real input, and the call under test
    /// runs on it - what a cache keyed by address / length / extent would get wrong
    #[serde(default)]
    pub inplace: bool,
    /// simulated clock of the run (S5): 0 = reference clock (+1 ns per reading); otherwise the
    /// seed of start, rate, skew and jumps
    #[serde(default)]
    pub clock_seed: u64,
    /// simulated number of CPUs the machine reports (S6): 0 = reference (1 CPU)
    #[serde(default)]
    pub cpus: usize,
    /// placement of the simulated threads' stacks (S8): 0 = reference (thread t in slot t, no
    /// start offset); otherwise the seed of the slot permutation and the start offsets
    #[serde(default)]
    pub stack_seed: u64,
    /// simulated environment variables and process id (S9): 0 = reference (no variable set,
    /// pid 4242); otherwise the seed of the value every queried name gets, and of the pid
    #[serde(default)]
    pub env_seed: u64,
    /// atomic-granular tier (instrumented build): probability (x/256) that an atomic operation
    /// of the code under test is a scheduling point; 0 = job-granular scheduling
    #[serde(default)]
    pub atomic_rate: u16,
    /// a lazily evaluated result (the sweep's iterator) is consumed while another computation of
    /// the same kind is alive on the same thread and is consumed in lock-step
    #[serde(default)]
    pub interleave: bool,
    /// the call runs on an EQUAL input in another representation: every buffer re-allocated with
    /// a seeded amount of spare capacity (0 = the input as generated)
    #[serde(default)]
    pub respare_seed: u64,
}

impl Cfg {
    pub fn reference() -> Cfg {
        Cfg { workers: 1, strategy: "sequential".into(), sched_seed: 0, hash_seed: 0, addr_seed: None, prefix: vec![], from_worker: false, decisions: None, repeat: false, callers: 1, callers_other: false, inplace: false, clock_seed: 0, cpus: 0, stack_seed: 0, env_seed: 0, atomic_rate: 0, interleave: false, respare_seed: 0 }
    }
}

fn strategy_of(s: &str) -> Strategy {
    match s {
        "sequential" => Strategy::Sequential,
        "uniform" => Strategy::Uniform,
        "steal-eager" => Strategy::StealEager,
        "steal-rare" => Strategy::StealRare(24),
        "pct1" => Strategy::Pct(1),
        "pct2" => Strategy::Pct(2),
        "pct3" => Strategy::Pct(3),
        _ => Strategy::Uniform,
    }
}

#[derive(Clone, Debug, PartialEq, Eq)]
pub enum Outcome {
    Value(Vec<u8>),
    Panic(String),
}

impl Outcome {
    pub fn to_json(&self) -> Value {
        match self {
            Outcome::Value(b) => json!({"kind": "value", "len": b.len(), "fnv": format!("{:016x}", fnv1a(b)), "head": simkit::hex(&b[..b.len().min(48)])}),
            Outcome::Panic(l) => json!({"kind": "panic", "at": l}),
        }
    }
    pub fn digest(&self) -> u64 {
        match self {
            Outcome::Value(b) => fnv1a(b),
            Outcome::Panic(l) => fnv1a(l.as_bytes()) ^ 0xdead,
        }
    }
}

pub struct RunInfo {
    pub wall_us: u64,
    pub report: Report,
    pub key_draws: u64,
    pub alloc: seams::AllocStats,
    pub env: seams::EnvStats,
    /// (environment variables read, process id queries) by simulated threads
    pub envvar: (u64, u64),
    pub solver_calls: usize,
}

// global (process-wide) panic location: jobs panic on worker threads, the outcome is read on
// the harness thread
static PANIC_AT: Mutex<Option<String>> = Mutex::new(None);
/// earlier calls of a history (prefix) that ended in a panic (caught; the thread carries on)
static PREFIX_PANICS: std::sync::atomic::AtomicU64 = std::sync::atomic::AtomicU64::new(0);

pub fn install_global_panic_hook() {
    std::panic::set_hook(Box::new(|info| {
        let loc = info.location().map(|l| format!("{}:{}", l.file(), l.line())).unwrap_or_else(|| "?".into());
        let mut g = PANIC_AT.lock().unwrap_or_else(|p| p.into_inner());
        if g.is_none() {
            *g = Some(loc);
        }
    }));
}

// ---------------------------------------------------------------------------------------------
// per-run watchdog: a simulated execution that does not come back
// ---------------------------------------------------------------------------------------------
//
// Every scenario's reference run is screened in a resource-limited pristine child, but a VARIANT
// configuration can take a path the reference never takes (a change that goes parallel above a
// pool size of 1, a forced overlay knob meeting an intermediate result) and not come back.  A
// thread cannot be killed, so a harness thread watches the run in flight: past the limit it
// writes `<out>/C20-shard<i>.stuck` (what ran, under which configuration, which step of the shard
// loop) and ends the process with status 86; the driver records the stuck run, decides what it
// means (DESIGN.md 8.3) and re-launches the chunk with that step skipped.

struct Watch {
    since: Instant,
    limit_s: u64,
    what: Value,
}
static WATCH: Mutex<Option<Watch>> = Mutex::new(None);
/// the step of the shard loop that is in flight ("<run>:ref", "<run>:<variant>", "<run>:min", "cross:<k>")
static WATCH_TOKEN: Mutex<String> = Mutex::new(String::new());
static WATCH_LIMIT_S: std::sync::atomic::AtomicU64 = std::sync::atomic::AtomicU64::new(0);

fn set_token(t: String) {
    *WATCH_TOKEN.lock().unwrap_or_else(|p| p.into_inner()) = t;
}

fn start_watchdog(a: &Args, limit_s: u64) {
    WATCH_LIMIT_S.store(limit_s, std::sync::atomic::Ordering::SeqCst);
    let path = format!("{}/C20-shard{}.stuck", a.out_dir, a.shard_i);
    let _ = std::fs::remove_file(&path);
    std::thread::spawn(move || loop {
        std::thread::sleep(std::time::Duration::from_millis(250));
        let g = WATCH.lock().unwrap_or_else(|p| p.into_inner());
        if let Some(w) = g.as_ref() {
            if w.since.elapsed().as_secs() >= w.limit_s {
                let token = WATCH_TOKEN.lock().unwrap_or_else(|p| p.into_inner()).clone();
                let rec = json!({"token": token, "limit_s": w.limit_s, "what": w.what});
                let _ = std::fs::write(&path, serde_json::to_vec(&rec).unwrap_or_default());
                unsafe { libc::_exit(86) };
            }
        }
    });
}

/// Atomic-granular build only: executes every catalogue operation once on a tiny input, outside any
/// simulation, before the first simulated run of this process.  Process-wide one-time initialisation
/// (LazyLock / Once, CPU-feature caches) performs atomic operations on first use only; without this the
/// number of in-job scheduling points of a run - and so its decision log - would depend on which runs the
/// process happened to execute before (measured: selftest/determinism.sh, 16-shard layout vs 1-shard).
/// The pristine-process server is forked BEFORE this, so the fresh-process oracle stays pristine.
#[cfg(feature = "atomic-points")]
pub fn warm_up() {
    for op in ops::OPS.iter() {
        for fam in inputs::FAMILIES.iter().filter(|f| ops::compatible(op, f)).take(2) {
            let input = inputs::build(&InputSpec { family: fam.to_string(), size: 3, seed: 1 });
            let _ = std::panic::catch_unwind(std::panic::AssertUnwindSafe(|| exec(op, &input)));
        }
    }
    *PANIC_AT.lock().unwrap_or_else(|p| p.into_inner()) = None;
}
#[cfg(not(feature = "atomic-points"))]
pub fn warm_up() {}

fn exec(op: &OpDef, input: &Input) -> Vec<u8> {
    let mut o = Out::new();
    (op.f)(input, &mut o);
    o.0
}

/// Executes one scenario under one configuration in a fresh simulation.
pub fn run_one(sc: &Scenario, op: &'static OpDef, input: &Input, prefix_inputs: &[(&'static OpDef, Input)], cfg: &Cfg) -> (Outcome, RunInfo) {
    let t_run = Instant::now();
    *PANIC_AT.lock().unwrap_or_else(|p| p.into_inner()) = None;
    let limit_s = WATCH_LIMIT_S.load(std::sync::atomic::Ordering::SeqCst);
    if limit_s > 0 {
        *WATCH.lock().unwrap_or_else(|p| p.into_inner()) = Some(Watch { since: t_run, limit_s, what: json!({"scenario": sc, "config": cfg}) });
    }
    if sc.knobs.strategy == 0 {
        geo::algorithm::bool_ops::verif_hooks::clear_solver();
    } else {
        geo::algorithm::bool_ops::verif_hooks::set_solver(sc.knobs.strategy, sc.knobs.par_sort_min_size);
    }
    let calls0 = geo::algorithm::bool_ops::verif_hooks::solver_calls();
    seams::set_hash_seed(cfg.hash_seed);
    seams::begin_run(cfg.addr_seed);
    seams::begin_env(cfg.clock_seed, cfg.cpus);
    seams::set_stack_seed(cfg.stack_seed);
    seams::set_envvar_seed(cfg.env_seed, cfg.workers);
    ops::set_interleave(cfg.interleave);
    let scfg = sim::Config {
        workers: cfg.workers,
        strategy: strategy_of(&cfg.strategy),
        seed: cfg.sched_seed,
        replay: cfg.decisions.clone(),
        thread_start: Some(seams::mark_sim_thread),
        thread_wrap: Some(seams::on_sim_stack),
        stack: 16 << 20,
        atomic_rate: if cfg!(feature = "atomic-points") { cfg.atomic_rate } else { 0 },
        yield_on_block: true,
        ..sim::Config::default()
    };
    let from_worker = cfg.from_worker;
    let repeat = cfg.repeat;
    let respare_seed = cfg.respare_seed;
    // (the reversed copy is an unscreened input: not for the operations that can run away, nor under a forced Frag)
    let inplace = cfg.inplace && sc.knobs.strategy != 4 && sc.input.size <= 10_000 && !matches!(sc.op.as_str(), "sweep_intersections" | "sweep_intersections_refs" | "interior_point" | "monotone_subdivision" | "misc_per_type" | "collection_ops");
    let callers = cfg.callers.max(1);
    // (never for the operations that can run away on unscreened inputs, nor under a forced Frag)
    let other_ok = cfg.callers_other && sc.knobs.strategy != 4 && sc.input.size <= 10_000 && !matches!(sc.op.as_str(), "sweep_intersections" | "sweep_intersections_refs" | "interior_point" | "monotone_subdivision" | "misc_per_type" | "collection_ops");
    let others: Vec<Input> = if other_ok {
        (1..callers).map(|k| inputs::build(&InputSpec { family: sc.input.family.clone(), size: sc.input.size, seed: mix(&[sc.input.seed, k as u64, 0xca11e5]) })).collect()
    } else {
        vec![]
    };
    let others = &others;
    let make_body = |k: usize| {
        move || {
            let input: &Input = if k > 0 && !others.is_empty() { &others[k - 1] } else { input };
            let foreign = k > 0 && !others.is_empty();
            let body = move || {
                if foreign {
                    // a concurrent caller with its own input: only its interference matters
                    return std::panic::catch_unwind(std::panic::AssertUnwindSafe(|| exec(op, input))).unwrap_or_default();
                }
                for (pop, pin) in prefix_inputs {
                    // the prefix only churns thread-local key counters, lazies and the heap; a panic
                    // in it is not the call under test
                    if std::panic::catch_unwind(std::panic::AssertUnwindSafe(|| exec(pop, pin))).is_err() {
                        PREFIX_PANICS.fetch_add(1, std::sync::atomic::Ordering::SeqCst);
                    }
                }
                // a panic of the prefix must not be taken for the panic location of the call under test
                *PANIC_AT.lock().unwrap_or_else(|p| p.into_inner()) = None;
                if repeat {
                    let _ = std::panic::catch_unwind(std::panic::AssertUnwindSafe(|| exec(op, input)));
                    *PANIC_AT.lock().unwrap_or_else(|p| p.into_inner()) = None;
                }
                if respare_seed != 0 && !inplace {
                    let other_repr = inputs::respared(input, respare_seed);
                    return exec(op, &other_repr);
                }
                if inplace {
                    let mut scratch = inputs::reversed(input);
                    let _ = std::panic::catch_unwind(std::panic::AssertUnwindSafe(|| exec(op, &scratch)));
                    *PANIC_AT.lock().unwrap_or_else(|p| p.into_inner()) = None;
                    if inputs::overwrite_in_place(&mut scratch, input) {
                        return exec(op, &scratch);
                    }
                }
                exec(op, input)
            };
            if from_worker {
                rayon::ThreadPoolBuilder::new().build().unwrap().install(body)
            } else {
                body()
            }
        }
    };
    let (mut all, report) = sim::run_multi(scfg, (0..callers).map(make_body).collect());
    // all callers (with the same input) must agree; report the first one that differs from
    // caller 0 (if any) so that a disagreement between callers can never be masked
    let first = all.remove(0);
    let mut res = first;
    if !others.is_empty() {
        all.clear();
    }
    if let Ok(b0) = &res {
        for other in all {
            match other {
                Ok(b) if &b == b0 => {}
                other => {
                    res = other;
                    break;
                }
            }
        }
    }
    let outcome = match res {
        Ok(bytes) => {
            // copy on the harness thread; the original (possibly arena memory) dies here
            let copy = bytes.as_slice().to_vec();
            drop(bytes);
            Outcome::Value(copy)
        }
        Err(e) => {
            drop(e);
            Outcome::Panic(PANIC_AT.lock().unwrap_or_else(|p| p.into_inner()).take().unwrap_or_else(|| "?".into()))
        }
    };
    seams::end_run();
    seams::end_env();
    if limit_s > 0 {
        *WATCH.lock().unwrap_or_else(|p| p.into_inner()) = None;
    }
    let info = RunInfo {
        wall_us: t_run.elapsed().as_micros() as u64,
        report,
        key_draws: seams::hash_draws(),
        alloc: seams::alloc_stats(),
        env: seams::env_stats(),
        envvar: seams::envvar_stats(),
        solver_calls: geo::algorithm::bool_ops::verif_hooks::solver_calls() - calls0,
    };
    (outcome, info)
}

// ---------------------------------------------------------------------------------------------
// generation of scenarios and configurations
// ---------------------------------------------------------------------------------------------

const PREFIX_OPS: &[(&str, &str)] = &[("stitch_triangulation", "blobs"), ("geodesic", "cloud"), ("intersection", "rects"), ("sweep_intersections", "segs"), ("aggregates", "cloud"), ("concave_hull", "cloud")];

pub fn gen_scenario(seed: u64, large: u8) -> Scenario {
    let mut rng = Rng::stream(seed, "c20-scenario");
    loop {
        let op = &ops::OPS[rng.below(ops::OPS.len())];
        // phase 3 ("huge"): the (near-)linear operations on 10 000 - 100 000 members / points /
        // vertices, far above any plausible "go parallel" threshold
        const HUGE_OPS: &[&str] = &["aggregates", "geodesic_aggregates", "par_iter_multipolygon", "par_iter_multipoint_mls", "convex_hull", "quick_and_graham_hull",
            "simplify", "simplify_vw", "densify_segmentize", "traversals", "transforms", "extremes", "minimum_rotated_rect", "outliers", "unary_union", "earcut_triangles"];
        // phase 4 ("many", atomic-granular tier): the same kind of operations plus the quadratic
        // set measures and the spatial-index users, on 1 100 - 4 200 members / points / vertices:
        // above the thresholds at which code goes parallel, cheap enough for thousands of runs
        const MANY_OPS: &[&str] = &["set_distances", "concave_hull", "k_nearest_concave_hull", "collection_ops", "validation", "stitch_triangulation", "interior_point", "simplify_vw_preserve", "distance"];
        if large == 4 {
            if !HUGE_OPS.contains(&op.name) && !MANY_OPS.contains(&op.name) {
                continue;
            }
            let fams: Vec<&str> = ["mantissa", "cloud", "circles"].into_iter().filter(|f| ops::compatible(op, f)).collect();
            if fams.is_empty() {
                continue;
            }
            let fam = *rng.pick(&fams);
            let size = *rng.pick(&[1100usize, 1100, 2100, 4200]);
            let size = match op.name {
                "concave_hull" | "k_nearest_concave_hull" | "outliers" | "unary_union" | "stitch_triangulation" | "interior_point" | "validation" | "collection_ops" | "par_iter_multipolygon" => size.min(1100),
                _ => size,
            };
            return Scenario { op: op.name.to_string(), input: InputSpec { family: fam.to_string(), size, seed: rng.next_u64() }, knobs: Knobs { strategy: 0, par_sort_min_size: 32768 } };
        }
        if large == 3 {
            if !HUGE_OPS.contains(&op.name) {
                continue;
            }
            let fams: Vec<&str> = ["mantissa", "cloud", "circles"].into_iter().filter(|f| ops::compatible(op, f)).collect();
            if fams.is_empty() {
                continue;
            }
            let fam = *rng.pick(&fams);
            let size = *rng.pick(&[10_000usize, 20_000, 50_000, 100_000]);
            let size = if op.name == "unary_union" || op.name == "outliers" || op.name == "par_iter_multipolygon" { size.min(20_000) } else { size };
            return Scenario { op: op.name.to_string(), input: InputSpec { family: fam.to_string(), size, seed: rng.next_u64() }, knobs: Knobs { strategy: 0, par_sort_min_size: 32768 } };
        }
        if large > 0 && !op.large_ok {
            continue;
        }
        // operations that meet a pool, a keyed map or an address get 3x the weight of the rest
        let hot = op.large_ok || matches!(op.name, "stitch_triangulation" | "sweep_intersections" | "sweep_intersections_refs" | "interior_point" | "monotone_subdivision" | "par_iter_multipolygon" | "par_iter_multipoint_mls" | "unary_union_multi" | "intersection_poly_poly" | "constrained_triangulation_members" | "triangulation_overlapping" | "constrained_outer_triangulation" | "aggregates" | "geodesic_aggregates" | "concave_hull" | "k_nearest_concave_hull" | "outliers" | "transforms" | "traversals" | "collection_ops" | "misc_per_type" | "convex_hull" | "quick_and_graham_hull" | "closest_point_many");
        if large == 0 && !hot && !rng.chance(1, 3) {
            continue;
        }
        let fams: Vec<&str> = inputs::FAMILIES.iter().copied().filter(|f| ops::compatible(op, f)).filter(|f| large == 0 || matches!(*f, "lattice" | "circles" | "combs")).collect();
        if fams.is_empty() {
            continue;
        }
        let mut fam = *rng.pick(&fams);
        // folds over many members: half of the time on full-mantissa doubles
        if large == 0 && matches!(op.name, "aggregates" | "geodesic_aggregates" | "par_iter_multipolygon" | "par_iter_multipoint_mls" | "transforms" | "traversals") && rng.chance(1, 2) {
            fam = "mantissa";
        }
        // stitching is quadratic in the boundary lines but cheap: a third of the time give it
        // outlines of several hundred to a few thousand edges
        let big_stitch = large == 0 && op.name == "stitch_triangulation" && rng.chance(1, 3);
        if big_stitch {
            fam = *rng.pick(&["lattice", "circles", "tiles"]);
        }
        if large == 0 && matches!(op.name, "par_iter_multipolygon" | "par_iter_multipoint_mls") && rng.chance(1, 3) {
            fam = "archipelago";
        }
        if large == 0 && matches!(op.name, "unary_union" | "unary_union_multi" | "union" | "xor") && rng.chance(1, 4) {
            fam = "donuts";
        }
        // the spatial-index driven algorithms named in the property: point clouds half of the time
        if large == 0 && matches!(op.name, "concave_hull" | "k_nearest_concave_hull" | "outliers") && rng.chance(1, 2) {
            fam = "cloud";
        }
        // the cheap point-set operations: a quarter of the time on 4 000 - 70 000 points
        let many_points = large == 0 && matches!(op.name, "convex_hull" | "quick_and_graham_hull" | "extremes" | "minimum_rotated_rect" | "set_distances") && rng.chance(1, 2);
        if many_points {
            fam = "cloud";
        }
        // the line-oriented operations: a third of the time on rings of 1 000 - 8 000 vertices
        let long_ring = large == 0 && matches!(op.name, "simplify" | "simplify_vw" | "densify_segmentize" | "traversals" | "transforms") && rng.chance(1, 3);
        if long_ring {
            fam = "circles";
        }
        // (constrained triangulation of several 1000-vertex members costs ~0.1 s)
        if fam == "archipelago" && op.name.contains("triangulation") && op.name != "stitch_triangulation" {
            fam = "blobs";
        }
        if large == 0 && op.name == "closest_point_many" && rng.chance(2, 3) {
            fam = "lattice";
        }
        let mut spec = inputs::gen_spec(&mut rng, fam, large);
        if large == 0 && op.name == "closest_point_many" && fam == "lattice" {
            spec.size = 9 + rng.below(6); // 81 .. 196 members
        }
        if long_ring {
            spec.size = *rng.pick(&[1030usize, 2100, 4200, 8300]);
        }
        if many_points {
            spec.size = *rng.pick(&[4200usize, 8300, 16_500, 33_000, 40_000, 66_000, 66_000]);
        }
        // rings of several thousand vertices are for the linear-time operations only
        if fam == "circles" && spec.size > 2100 && !matches!(op.name, "simplify" | "simplify_vw" | "densify_segmentize" | "traversals" | "transforms" | "aggregates" | "geodesic_aggregates" | "convex_hull" | "quick_and_graham_hull" | "extremes" | "minimum_rotated_rect" | "earcut_triangles") {
            spec.size = 2100;
        }
        // cost caps: triangulating hundreds of many-vertex members, clipping across thousands of slivers
        if op.name.contains("triangulation") && op.name != "stitch_triangulation" {
            let cap = match fam {
                "donuts" | "archipelago" => 40,
                "lattice" | "tiles" => 12,
                "circles" => 520,
                "blobs" => 70,
                "starholes" | "combs" => 130,
                _ => usize::MAX,
            };
            spec.size = spec.size.min(cap);
        }
        if fam == "mantissa" && matches!(op.name, "clip" | "clip_invert") {
            spec.size = spec.size.min(20);
        }
        // uneven members / many holes: the parallel-iterator surface and the unions half of the time
        if big_stitch {
            spec.size = match fam {
                "lattice" => 12 + rng.below(8),   // 144..361 squares, 576..1444 boundary edges
                "circles" => 600 + rng.below(1200),
                _ => 14 + rng.below(10),          // tilings: the outline has 4k edges
            };
        }
        // thousands of full-mantissa members are for the aggregate / par-iter operations only
        if fam == "mantissa" && !matches!(op.name, "aggregates" | "geodesic_aggregates" | "par_iter_multipolygon" | "par_iter_multipoint_mls" | "transforms" | "traversals") {
            // (disjoint small triangles are cheap to union: many-input unary unions stay in)
            spec.size = spec.size.min(if matches!(op.name, "unary_union" | "unary_union_multi") { 1000 } else { 60 });
        }
        let knobs = if large > 0 || !op.large_ok || rng.chance(1, 5) {
            Knobs { strategy: 0, par_sort_min_size: 32768 }
        } else {
            Knobs { strategy: 1 + rng.below(4), par_sort_min_size: *rng.pick(&[0usize, 0, 64, 32768, usize::MAX]) }
        };
        // Frag is where the small inputs reach the parallel split: bias towards it
        let knobs = if knobs.strategy != 0 && rng.chance(1, 2) { Knobs { strategy: 4, ..knobs } } else { knobs };
        return Scenario { op: op.name.to_string(), input: spec, knobs };
    }
}

pub fn gen_cfg(seed: u64, v: u64) -> Cfg {
    let mut rng = Rng::stream(mix(&[seed, v]), "c20-config");
    let workers = match rng.below(6) {
        0 => 1,
        1 => 2,
        2 => 16,
        _ => 1 + rng.below(16),
    };
    let strategy = *rng.pick(&["uniform", "uniform", "steal-eager", "steal-eager", "steal-rare", "pct1", "pct2", "pct3", "sequential"]);
    // history prefix: other catalogue operations, and - most likely to expose an unkeyed cache or a
    // reused workspace - the *same* operation on a different input of the same family
    // ("@self:<size>:<seed>")
    let prefix: Vec<String> = if rng.chance(2, 5) {
        (0..1 + rng.below(3))
            .map(|_| {
                if rng.chance(1, 5) {
                    // an earlier call of the same operation that may FAIL: the family's input with one
                    // kind of damage (hole of < 4 coordinates, empty rings, NaN, bow-tie, all-equal, infinity)
                    format!("@bad:{}:{}:{}", rng.below(6), 1 + rng.below(12), rng.next_u64())
                } else if rng.chance(1, 2) {
                    // size 0 = "the same size as the input of the call under test"
                    let size = if rng.chance(1, 2) { 0 } else { 1 + rng.below(24) };
                    format!("@self:{}:{}", size, rng.next_u64())
                } else {
                    rng.pick(PREFIX_OPS).0.to_string()
                }
            })
            .collect()
    } else {
        vec![]
    };
    Cfg {
        workers,
        strategy: strategy.to_string(),
        sched_seed: rng.next_u64(),
        hash_seed: rng.next_u64() | 1,
        addr_seed: if rng.chance(3, 4) { Some(rng.next_u64() | 1) } else { None },
        prefix,
        from_worker: rng.chance(1, 5),
        decisions: None,
        repeat: rng.chance(1, 6),
        callers: if rng.chance(1, 6) { 2 + rng.below(2) } else { 1 },
        callers_other: rng.chance(1, 2),
        inplace: rng.chance(1, 6),
        clock_seed: if rng.chance(1, 2) { rng.next_u64() | 1 } else { 0 },
        cpus: if rng.chance(1, 2) { *rng.pick(&[1usize, 2, 3, 4, 6, 8, 12, 16, 24, 32, 64, 128]) } else { 0 },
        stack_seed: if rng.chance(2, 3) { rng.next_u64() | 1 } else { 0 },
        env_seed: if rng.chance(1, 2) { rng.next_u64() | 1 } else { 0 },
        interleave: rng.chance(1, 4),
        respare_seed: if rng.chance(1, 4) { rng.next_u64() | 1 } else { 0 },
        atomic_rate: if cfg!(feature = "atomic-points") { *rng.pick(&[4u16, 16, 64, 128, 256, 256]) } else { 0 },
    }
}

fn prefix_inputs_for(sc: &Scenario, cfg: &Cfg) -> Vec<(&'static OpDef, Input)> {
    cfg.prefix
        .iter()
        .enumerate()
        .filter_map(|(k, name)| {
            if let Some(rest) = name.strip_prefix("@bad:") {
                if sc.knobs.strategy == 4 {
                    return None;
                }
                let mut it = rest.splitn(3, ':');
                let (k, size, seed) = (it.next()?, it.next()?, it.next()?);
                let op = ops::find(&sc.op)?;
                let size: usize = size.parse::<usize>().ok()?.min(sc.input.size.max(1));
                return Some((op, inputs::build(&InputSpec { family: format!("bad{}:{}", k, sc.input.family), size, seed: seed.parse().ok()? })));
            }
            if let Some(rest) = name.strip_prefix("@self:") {
                if sc.knobs.strategy == 4 {
                    return None; // forced Frag is only ever run on inputs screened by S7
                }
                let (size, seed) = rest.split_once(':')?;
                let op = ops::find(&sc.op)?;
                // never larger than the scenario's own input (keeps shipped-threshold runs cheap)
                let size: usize = match size.parse::<usize>().ok()? {
                    0 => sc.input.size.max(1),
                    s => s.min(sc.input.size.max(1)),
                };
                return Some((op, inputs::build(&InputSpec { family: sc.input.family.clone(), size, seed: seed.parse().ok()? })));
            }
            let fam = PREFIX_OPS.iter().find(|(n, _)| n == name)?.1;
            let op = ops::find(name)?;
            Some((op, inputs::build(&InputSpec { family: fam.to_string(), size: 6, seed: 1000 + k as u64 })))
        })
        .collect()
}

// ---------------------------------------------------------------------------------------------
// violation handling: which dimensions are needed, shorter decision log, smaller input
// ---------------------------------------------------------------------------------------------

fn differs(sc: &Scenario, op: &'static OpDef, input: &Input, cfg: &Cfg, reference: &Outcome) -> Option<(Outcome, RunInfo)> {
    let pin = prefix_inputs_for(sc, cfg);
    let (o, info) = run_one(sc, op, input, &pin, cfg);
    if &o != reference {
        Some((o, info))
    } else {
        None
    }
}

fn class_of(reference: &Outcome, got: &Outcome) -> &'static str {
    match (reference, got) {
        (Outcome::Value(a), Outcome::Value(b)) => {
            if a.len() == b.len() {
                let mut x = a.clone();
                let mut y = b.clone();
                x.sort_unstable();
                y.sort_unstable();
                if x == y {
                    "member-order"
                } else {
                    "value-bits"
                }
            } else {
                "value-shape"
            }
        }
        (Outcome::Value(_), Outcome::Panic(_)) | (Outcome::Panic(_), Outcome::Value(_)) => "value-vs-panic",
        _ => "panic-location",
    }
}

fn dims_of(cfg: &Cfg, sc: &Scenario) -> Vec<&'static str> {
    let mut needed = vec![];
    if !cfg.prefix.is_empty() {
        needed.push("prefix");
    }
    if cfg.from_worker {
        needed.push("from_worker");
    }
    if cfg.repeat {
        needed.push("repeat");
    }
    if cfg.callers > 1 {
        needed.push("callers");
    }
    if cfg.inplace {
        needed.push("inplace-history");
    }
    if cfg.clock_seed != 0 {
        needed.push("clock");
    }
    if cfg.cpus != 0 {
        needed.push("cpus");
    }
    if cfg.stack_seed != 0 {
        needed.push("stack");
    }
    if cfg.env_seed != 0 {
        needed.push("env");
    }
    if cfg.atomic_rate != 0 {
        needed.push("in-job-interleaving");
    }
    if cfg.interleave {
        needed.push("interleaved-lazy-consumption");
    }
    if cfg.respare_seed != 0 {
        needed.push("input-capacity");
    }
    if cfg.addr_seed.is_some() {
        needed.push("addr");
    }
    if cfg.hash_seed != 0 {
        needed.push("hash");
    }
    if cfg.strategy != "sequential" {
        needed.push("schedule");
    }
    if cfg.workers != 1 {
        needed.push("workers");
    }
    if sc.knobs.strategy != 0 {
        needed.push("knobs");
    }
    needed
}

struct Minimised {
    sc: Scenario,
    cfg: Cfg,
    reference: Outcome,
    got: Outcome,
    needed: Vec<&'static str>,
    decisions: Vec<Decision>,
    /// false if the minimisation budget (wall time) ran out: the case is then smaller than found, not minimal
    complete: bool,
}

fn minimise(sc: &Scenario, cfg: &Cfg) -> Option<Minimised> {
    let op = ops::find(&sc.op)?;
    let mut sc = sc.clone();
    let mut cfg = cfg.clone();
    let refcfg = Cfg::reference();
    // minimisation is a service to the reader, not part of the verdict: when the runs are slow (a
    // change that makes every execution cost seconds) it stops at a wall budget and reports what
    // it has; the replay file is self-contained either way
    let t_min = Instant::now();
    let over = || t_min.elapsed().as_secs() >= 100;
    // (iii) smaller input first (cheaper afterwards): shrink the size parameter
    loop {
        let mut improved = false;
        // (the shrink phase gets at most 40 s of the 100 s: which dimensions are needed says more)
        if t_min.elapsed().as_secs() >= 40 {
            break;
        }
        for cand in [sc.input.size / 2, sc.input.size.saturating_sub(1)] {
            if cand == 0 || cand >= sc.input.size {
                continue;
            }
            let mut t = sc.clone();
            t.input.size = cand;
            let input = inputs::build(&t.input);
            let (r, _) = run_one(&t, op, &input, &[], &refcfg);
            if differs(&t, op, &input, &cfg, &r).is_some() {
                sc = t;
                improved = true;
                break;
            }
        }
        if !improved {
            break;
        }
    }
    let input = inputs::build(&sc.input);
    let (reference, _) = run_one(&sc, op, &input, &[], &refcfg);
    // (i) which configuration dimensions are needed at all
    let mut try_reset = |name: &'static str, f: &dyn Fn(&mut Cfg), cfg: &mut Cfg| -> bool {
        let mut t = cfg.clone();
        f(&mut t);
        if t == *cfg || over() {
            return false;
        }
        if differs(&sc, op, &input, &t, &reference).is_some() {
            *cfg = t;
            let _ = name;
            true
        } else {
            false
        }
    };
    try_reset("prefix", &|c| c.prefix.clear(), &mut cfg);
    try_reset("from_worker", &|c| c.from_worker = false, &mut cfg);
    try_reset("repeat", &|c| c.repeat = false, &mut cfg);
    try_reset("callers", &|c| c.callers = 1, &mut cfg);
    try_reset("callers_other", &|c| c.callers_other = false, &mut cfg);
    try_reset("inplace", &|c| c.inplace = false, &mut cfg);
    try_reset("clock", &|c| c.clock_seed = 0, &mut cfg);
    try_reset("cpus", &|c| c.cpus = 0, &mut cfg);
    try_reset("stack", &|c| c.stack_seed = 0, &mut cfg);
    try_reset("env", &|c| c.env_seed = 0, &mut cfg);
    try_reset("atomic", &|c| c.atomic_rate = 0, &mut cfg);
    try_reset("interleave", &|c| c.interleave = false, &mut cfg);
    try_reset("capacity", &|c| c.respare_seed = 0, &mut cfg);
    try_reset("addr", &|c| c.addr_seed = None, &mut cfg);
    try_reset("hash", &|c| c.hash_seed = 0, &mut cfg);
    try_reset(
        "schedule",
        &|c| {
            c.strategy = "sequential".into();
            c.sched_seed = 0
        },
        &mut cfg,
    );
    try_reset("workers", &|c| c.workers = 1, &mut cfg);
    for w in [2usize, 4, 8] {
        if cfg.workers > w {
            try_reset("workers", &|c| c.workers = w, &mut cfg);
        }
    }
    let mut needed = vec![];
    if !cfg.prefix.is_empty() {
        needed.push("prefix");
    }
    if cfg.from_worker {
        needed.push("from_worker");
    }
    if cfg.repeat {
        needed.push("repeat");
    }
    if cfg.callers > 1 {
        needed.push("callers");
    }
    if cfg.inplace {
        needed.push("inplace-history");
    }
    if cfg.clock_seed != 0 {
        needed.push("clock");
    }
    if cfg.cpus != 0 {
        needed.push("cpus");
    }
    if cfg.stack_seed != 0 {
        needed.push("stack");
    }
    if cfg.env_seed != 0 {
        needed.push("env");
    }
    if cfg.atomic_rate != 0 {
        needed.push("in-job-interleaving");
    }
    if cfg.interleave {
        needed.push("interleaved-lazy-consumption");
    }
    if cfg.respare_seed != 0 {
        needed.push("input-capacity");
    }
    if cfg.addr_seed.is_some() {
        needed.push("addr");
    }
    if cfg.hash_seed != 0 {
        needed.push("hash");
    }
    if cfg.strategy != "sequential" {
        needed.push("schedule");
    }
    if cfg.workers != 1 {
        needed.push("workers");
    }
    // knobs: back to the shipped configuration if the violation survives
    if sc.knobs.strategy != 0 && over() {
        needed.push("knobs");
    } else if sc.knobs.strategy != 0 {
        let mut t = sc.clone();
        t.knobs = Knobs { strategy: 0, par_sort_min_size: 32768 };
        let (r2, _) = run_one(&t, op, &input, &[], &refcfg);
        if differs(&t, op, &input, &cfg, &r2).is_some() {
            sc = t;
        } else {
            needed.push("knobs");
        }
    }
    let (reference, _) = run_one(&sc, op, &input, &[], &refcfg);
    // (ii) the decision log: shortest recorded prefix after which the sequential strategy may
    // take over (replay mode continues sequentially past the end of the recording)
    let (got, info) = differs(&sc, op, &input, &cfg, &reference)?;
    let mut decisions = info.report.decisions.clone();
    let mut got = got;
    if needed.contains(&"schedule") && !over() {
        let full: Vec<u32> = info.report.chosen();
        let (mut lo, mut hi) = (0usize, full.len());
        while lo < hi && !over() {
            let mid = (lo + hi) / 2;
            let mut t = cfg.clone();
            t.decisions = Some(full[..mid].to_vec());
            if differs(&sc, op, &input, &t, &reference).is_some() {
                hi = mid;
            } else {
                lo = mid + 1;
            }
        }
        let mut t = cfg.clone();
        t.decisions = Some(full[..hi].to_vec());
        if let Some((g2, i2)) = differs(&sc, op, &input, &t, &reference) {
            cfg = t;
            got = g2;
            decisions = i2.report.decisions[..hi.min(i2.report.decisions.len())].to_vec();
        }
    }
    let complete = !over();
    Some(Minimised { sc, cfg, reference, got, needed, decisions, complete })
}

/// input predicates used by known_findings.json matching
fn predicates(sc: &Scenario) -> Value {
    let input = inputs::build(&sc.input);
    let mut eq_segments = false;
    let norm = |l: &geo_types::Line<f64>| {
        let (a, b) = ((l.start.x.to_bits(), l.start.y.to_bits()), (l.end.x.to_bits(), l.end.y.to_bits()));
        if a <= b {
            (a, b)
        } else {
            (b, a)
        }
    };
    let mut seen = std::collections::BTreeSet::new();
    for l in &input.lines {
        if !seen.insert(norm(l)) {
            eq_segments = true;
        }
    }
    json!({"has_geometrically_equal_segments": eq_segments})
}

fn replay_json(a: &Args, r: u64, m: &Minimised, orig_sc: &Scenario, orig_cfg: &Cfg) -> Value {
    let input = inputs::build(&m.sc.input);
    let coords: Value = if input.segments <= 200 && input.lines.len() <= 200 {
        let mut o = Out::new();
        ops::w_mpoly(&mut o, &input.a);
        json!({
            "a": format!("{:?}", input.a), "b": format!("{:?}", input.b),
            "lines": input.lines.iter().map(|l| json!([[l.start.x, l.start.y], [l.end.x, l.end.y]])).collect::<Vec<_>>(),
            "pts": input.pts.0.len(),
        })
    } else {
        json!({"note": "large input: regenerate from the spec", "segments": input.segments})
    };
    let first_diff = match (&m.reference, &m.got) {
        (Outcome::Value(x), Outcome::Value(y)) => x.iter().zip(y.iter()).position(|(p, q)| p != q).map(|p| json!(p)).unwrap_or(json!(x.len().min(y.len()))),
        _ => Value::Null,
    };
    json!({
        "property": "C20", "engine": "sched", "verif_seed": a.seed, "run": r, "tier": a.tier,
        "scenario": m.sc, "input_written_out": coords,
        "reference": {"config": Cfg::reference(), "outcome": m.reference.to_json()},
        "variant": {"config": m.cfg, "outcome": m.got.to_json(),
                    "decision_log": m.decisions.iter().enumerate().map(|(i, d)| json!([i, d.n_enabled, d.chosen, Report::describe(d)])).collect::<Vec<_>>()},
        "difference": {"class": class_of(&m.reference, &m.got), "first_byte": first_diff, "needed_dimensions": m.needed},
        "predicates": predicates(&m.sc),
        "minimised_from": {"scenario": orig_sc, "config": orig_cfg},
        "minimisation_complete": m.complete,
    })
}

// ---------------------------------------------------------------------------------------------
// shard loop
// ---------------------------------------------------------------------------------------------

#[derive(Default)]
struct Tot {
    m: BTreeMap<String, u64>,
}
impl Tot {
    fn add(&mut self, k: &str, v: u64) {
        *self.m.entry(k.to_string()).or_insert(0) += v;
    }
    fn max(&mut self, k: &str, v: u64) {
        let e = self.m.entry(k.to_string()).or_insert(0);
        if v > *e {
            *e = v;
        }
    }
}

fn account(t: &mut Tot, sc: &Scenario, cfg: &Cfg, info: &RunInfo) {
    let s = &info.report.stats;
    t.add("sim_runs", 1);
    t.add("decisions", s.steps);
    t.add("joins", s.joins);
    t.add("steals", s.steals);
    t.add("pops", s.pops);
    t.add("inline_b", s.inline_b);
    t.add("jobs_migrated_true", s.jobs_via_ref);
    t.add("injected", s.injected);
    t.add("scope_spawns", s.scope_spawns);
    t.add("key_draws", info.key_draws);
    t.add("arena_allocs", info.alloc.arena_allocs);
    t.add("shuffled_allocations", info.alloc.shuffled_choices);
    t.add("solver_seam_calls", info.solver_calls as u64);
    t.add("clock_reads", info.env.clock_reads);
    t.add("clock_jumps", info.env.clock_jumps);
    t.add("cpu_count_queries", info.env.cpu_queries);
    if cfg.clock_seed != 0 {
        t.add("runs_with_clock_variant", 1);
    }
    if cfg.cpus > 1 {
        t.add("runs_with_cpu_count_variant", 1);
    }
    if cfg.stack_seed != 0 {
        t.add("runs_with_stack_placement_variant", 1);
    }
    if cfg.env_seed != 0 {
        t.add("runs_with_env_variant", 1);
    }
    if cfg.respare_seed != 0 && !cfg.inplace {
        t.add("runs_on_respared_equal_input", 1);
    }
    t.add("history_calls_that_panicked", PREFIX_PANICS.swap(0, std::sync::atomic::Ordering::SeqCst));
    t.add("atomic_ops_seen", s.atomic_ops);
    t.add("atomic_points", s.atomic_points);
    t.add("futex_waits_turned_into_yields", s.blocked_points);
    if s.atomic_points > 0 {
        t.add("runs_with_atomic_points", 1);
        t.add(&format!("runs_with_atomic_points/{}", sc.op), 1);
    }
    t.add("env_var_reads", info.envvar.0);
    t.add("pid_reads", info.envvar.1);
    t.max("fixed_area_relocated", seams::stack_stats().1 + seams::arena_relocated());
    t.max("arena_abandoned_bytes", info.alloc.abandoned_bytes);
    t.max("arena_exhausted", info.alloc.exhausted);
    t.max("max_decisions_in_a_run", s.steps);
    if s.joins > 0 {
        t.add(&format!("runs_with_joins/{}", sc.op), 1);
        t.add("runs_with_joins", 1);
    }
    if s.steals > 0 {
        t.add("runs_with_steals", 1);
    }
    if info.key_draws > 0 {
        t.add(&format!("runs_with_key_draws/{}", sc.op), 1);
        t.add("runs_with_key_draws", 1);
    }
    t.add(&format!("workers/{}", cfg.workers), 1);
    t.add(&format!("strategy/{}", cfg.strategy), 1);
    t.add(&format!("knob_strategy/{}", sc.knobs.strategy), 1);
    t.add(&format!("op/{}", sc.op), 1);
    t.add(&format!("us/{}", sc.op), info.wall_us);
    t.add(&format!("us_family/{}", sc.input.family), info.wall_us);
    t.add(&format!("us_workers/{}", cfg.workers), info.wall_us);
    if !cfg.prefix.is_empty() {
        t.add("runs_with_prefix", 1);
    }
    if cfg.from_worker {
        t.add("runs_from_worker", 1);
    }
    if cfg.repeat {
        t.add("runs_with_repeat", 1);
    }
    if cfg.inplace {
        t.add("runs_with_inplace_mutation_history", 1);
    }
    if cfg.callers > 1 {
        t.add("runs_with_concurrent_callers", 1);
        if cfg.callers_other {
            t.add("runs_with_concurrent_callers_on_other_inputs", 1);
        }
    }
    if cfg.prefix.iter().any(|p| p.starts_with("@self")) {
        t.add("runs_with_self_prefix", 1);
    }
    if cfg.addr_seed.is_some() {
        t.add("runs_with_addr_shuffle", 1);
    }
}

/// Runs in a fresh grandchild of the pristine server: the reference outcome of one scenario in a
/// process that has never executed anything else.
fn pristine_handler(req: &[u8]) -> Vec<u8> {
    let sc: Scenario = match serde_json::from_slice(req) {
        Ok(s) => s,
        Err(_) => return vec![],
    };
    let op = match ops::find(&sc.op) {
        Some(o) => o,
        None => return vec![],
    };
    let input = inputs::build(&sc.input);
    let (o, _) = run_one(&sc, op, &input, &[], &Cfg::reference());
    o.digest().to_le_bytes().to_vec()
}

pub fn run(a: &Args) -> i32 {
    install_global_panic_hook();
    // before anything else runs in this process
    let pristine = if a.extra.get("pristine").map(|s| s != "0").unwrap_or(true) { seams::Pristine::start(3 << 30, pristine_handler) } else { None };
    warm_up();
    let t0 = Instant::now();
    let variants: u64 = a.extra.get("variants").and_then(|s| s.parse().ok()).unwrap_or(3);
    let large: u8 = a.extra.get("large").and_then(|s| s.parse().ok()).unwrap_or(0);
    let cross: u64 = a.extra.get("cross").and_then(|s| s.parse().ok()).unwrap_or(0);
    let recheck_every: u64 = a.extra.get("recheck-every").and_then(|s| s.parse().ok()).unwrap_or(100);
    let trace = a.extra.contains_key("trace");
    let eventlog = a.extra.contains_key("eventlog");
    let mut events = String::new();
    let stream = match large {
        0 => "C20",
        3 => "C20-huge",
        4 => "C20-many",
        _ => "C20-large",
    };
    let mut tot = Tot::default();
    let mut hashes: Vec<u64> = Vec::new();
    let mut loghashes: Vec<u64> = Vec::new();
    let mut samples: Vec<Value> = Vec::new();
    let mut violations: Vec<Value> = Vec::new();
    let mut evaluations = 0u64;
    let mut scenarios = 0u64;
    let mut recheck = (0u64, 0u64);
    let mut effort_mismatches = 0u64;
    let mut effort_samples: Vec<Value> = Vec::new();
    let mut hazards: Vec<Value> = Vec::new();
    let refcfg = Cfg::reference();
    // steps of this shard that an earlier launch of the same chunk did not come back from
    let skip: std::collections::BTreeSet<String> = a.extra.get("skip").map(|s| s.split(',').filter(|t| !t.is_empty()).map(|t| t.to_string()).collect()).unwrap_or_default();
    let run_limit: u64 = a.extra.get("run-limit").and_then(|s| s.parse().ok()).unwrap_or(if large > 0 { 900 } else { 120 });
    if run_limit > 0 {
        start_watchdog(a, run_limit);
    }

    let until: u64 = a.extra.get("until").and_then(|s| s.parse().ok()).unwrap_or(u64::MAX);
    let mut r = a.shard_i;
    while r < a.runs && r <= until {
        let s_r = mix(&[a.seed, name_hash(stream), r]);
        let sc = gen_scenario(s_r, large);
        let op = ops::find(&sc.op).unwrap();
        let input = inputs::build(&sc.input);
        scenarios += 1;
        if trace {
            eprintln!("run {} {:?} segments={}", r, sc, input.segments);
        }
        // breadcrumb for post-mortems: which scenario was in flight if this process dies
        let _ = std::fs::write(format!("{}/C20-shard{}.current", a.out_dir, a.shard_i), format!("run {} {}", r, serde_json::to_string(&sc).unwrap_or_default()));
        // S7 + fresh-process clause: the reference outcome is first computed in a pristine
        // process (a fresh child of a server forked before this shard ran anything), under
        // memory and time limits.  (a) If it does not finish there, the scenario is skipped:
        // a forced Frag strategy (a knob geo never ships for small inputs) or a pathological
        // input can drive a dependency into unbounded work - a hazard, not a C20 verdict.
        // (b) Its digest must equal the digest computed here, after this process's history.
        let mut pristine_digest: Option<u64> = None;
        if skip.contains(&format!("{}:ref", r)) {
            tot.add("scenarios_skipped_stuck", 1);
            r += a.shard_n;
            continue;
        }
        set_token(format!("{}:ref", r));
        if let Some(p) = &pristine {
            tot.add("guarded_scenarios", 1);
            match p.ask(&serde_json::to_vec(&sc).unwrap(), if large > 0 { 90 } else { 2 }) {
                Some(b) if b.len() == 8 => pristine_digest = Some(u64::from_le_bytes(b.try_into().unwrap())),
                _ => {
                    tot.add("hazard_skipped", 1);
                    if hazards.len() < 3 {
                        hazards.push(json!({"run": r, "scenario": sc}));
                    }
                    r += a.shard_n;
                    continue;
                }
            }
        } else if sc.knobs.strategy == 4 || large > 0 {
            tot.add("guarded_scenarios", 1);
            let ok = seams::survives_in_child(3 << 30, if large > 0 { 60 } else { 5 }, || {
                let _ = run_one(&sc, op, &input, &[], &refcfg);
            });
            if !ok {
                tot.add("hazard_skipped", 1);
                if hazards.len() < 3 {
                    hazards.push(json!({"run": r, "scenario": sc}));
                }
                r += a.shard_n;
                continue;
            }
        }
        let (reference, rinfo) = run_one(&sc, op, &input, &[], &refcfg);
        evaluations += 1;
        account(&mut tot, &sc, &refcfg, &rinfo);
        if eventlog {
            events.push_str(&format!("{} ref {:016x} {} {} {} {:016x}\n", r, rinfo.report.log_hash(), rinfo.report.stats.steps, rinfo.key_draws, rinfo.alloc.shuffled_choices, reference.digest()));
        }
        if let Outcome::Panic(_) = reference {
            tot.add("reference_panics", 1);
        }
        if let Some(pd) = pristine_digest {
            evaluations += 1;
            tot.add("fresh_process_comparisons", 1);
            if pd != reference.digest() {
                let n_same = violations.iter().filter(|x| x["class"] == "fresh-process-differs").count();
                let path = if n_same < 3 {
                    let rep = json!({
                        "property": "C20", "engine": "sched", "kind": "fresh-process", "verif_seed": a.seed, "run": r, "tier": a.tier,
                        "scenario": sc,
                        "difference": {"class": "fresh-process-differs", "needed_dimensions": ["process-history"],
                                       "pristine_process_digest": format!("{:016x}", pd), "this_process": reference.to_json()},
                        "reproduce": {"shard": format!("{}/{}", a.shard_i, a.shard_n), "runs": a.runs, "large": large, "variants": variants,
                                      "note": "the same call gives a different result after this shard's earlier runs than in a process that has run nothing; re-running the shard up to this run index reproduces it"},
                    });
                    Value::String(write_replay(a, &format!("C20-{}-{}{}-fresh.json", a.seed, if large > 0 { "L" } else { "" }, r), &rep))
                } else {
                    Value::Null
                };
                violations.push(json!({"replay": path, "class": "fresh-process-differs", "op": sc.op, "run": r, "needed_dimensions": ["process-history"],
                    "detail": format!("{} on {:?}: digest {:016x} in a pristine process vs {} here after {} earlier scenarios", sc.op, sc.input, pd, reference.to_json(), scenarios - 1)}));
            }
        }
        tot.max("max_segments", input.segments as u64);
        for v in 0..variants {
            if skip.contains(&format!("{}:{}", r, v)) {
                tot.add("variants_skipped_stuck", 1);
                continue;
            }
            set_token(format!("{}:{}", r, v));
            let mut cfg = gen_cfg(s_r, v);
            // the sweep-based operations can run away on some (invalid / degenerate) inputs: a
            // same-operation prefix on ANOTHER input is screened in the pristine child like the
            // scenario itself, and dropped from the history if it does not finish there
            // a damaged input ("@bad") can drive any operation into unbounded work: screened for every operation
            let runaway_op = matches!(sc.op.as_str(), "sweep_intersections" | "sweep_intersections_refs" | "interior_point" | "monotone_subdivision");
            if pristine.is_none() {
                cfg.prefix.retain(|name| !name.starts_with("@bad:"));
            }
            if let Some(p) = &pristine {
                let before = cfg.prefix.len();
                cfg.prefix.retain(|name| {
                    if let Some(rest) = name.strip_prefix("@bad:") {
                        let mut it = rest.splitn(3, ':');
                        let (Some(k), Some(size), Some(seed)) = (it.next(), it.next(), it.next()) else { return false };
                        if sc.knobs.strategy == 4 {
                            return false;
                        }
                        let size = size.parse::<usize>().unwrap_or(1).min(sc.input.size.max(1));
                        let psc = Scenario { op: sc.op.clone(), input: InputSpec { family: format!("bad{}:{}", k, sc.input.family), size, seed: seed.parse().unwrap_or(0) }, knobs: sc.knobs.clone() };
                        let ok = p.ask(&serde_json::to_vec(&psc).unwrap(), 2).is_some();
                        if ok {
                            tot.add("runs_with_failed_call_history", 1);
                        }
                        return ok;
                    }
                    if !runaway_op {
                        return true;
                    }
                    match name.strip_prefix("@self:") {
                    None => true,
                    Some(rest) => {
                        let Some((size, seed)) = rest.split_once(':') else { return false };
                        let size: usize = match size.parse::<usize>().unwrap_or(1) {
                            0 => sc.input.size.max(1),
                            s => s.min(sc.input.size.max(1)),
                        };
                        let psc = Scenario { op: sc.op.clone(), input: InputSpec { family: sc.input.family.clone(), size, seed: seed.parse().unwrap_or(0) }, knobs: sc.knobs.clone() };
                        p.ask(&serde_json::to_vec(&psc).unwrap(), 2).is_some()
                    }
                    }
                });
                if cfg.prefix.len() != before {
                    tot.add("hazardous_prefix_dropped", (before - cfg.prefix.len()) as u64);
                }
            }
            let pin = prefix_inputs_for(&sc, &cfg);
            let (got, info) = run_one(&sc, op, &input, &pin, &cfg);
            evaluations += 1;
            account(&mut tot, &sc, &cfg, &info);
            if eventlog {
                events.push_str(&format!("{} {} {:016x} {} {} {} {:016x}\n", r, v, info.report.log_hash(), info.report.stats.steps, info.key_draws, info.alloc.shuffled_choices, got.digest()));
            }
            let consulted = info.report.stats.joins > 0 || info.key_draws > 0 || info.alloc.shuffled_choices > 0;
            if consulted {
                let h = mix(&[fnv1a(&serde_json::to_vec(&sc).unwrap()), fnv1a(&serde_json::to_vec(&cfg).unwrap()), info.report.log_hash()]);
                hashes.push(h);
            }
            if info.report.stats.steps > 0 {
                loghashes.push(info.report.log_hash());
            }
            if samples.len() < 3 && info.report.stats.steals > 0 && info.key_draws > 0 {
                samples.push(json!({"run": r, "scenario": sc, "config": cfg, "joins": info.report.stats.joins, "steals": info.report.stats.steals,
                    "key_draws": info.key_draws, "shuffled_allocations": info.alloc.shuffled_choices, "decisions": info.report.stats.steps,
                    "outcome": got.to_json(), "first_decisions": info.report.decisions.iter().take(12).map(Report::describe).collect::<Vec<_>>()}));
            }
            // determinism of the simulator itself: re-execute a sample of runs
            if recheck_every > 0 && (evaluations % recheck_every) == 0 {
                let (got2, info2) = run_one(&sc, op, &input, &pin, &cfg);
                recheck.0 += 1;
                if got2 != got {
                    // the same configuration, executed twice, gave two outcomes: every source of
                    // nondeterminism the simulator knows is pinned, so the code under test consults
                    // one it should not (real time, OS randomness, ...).  That is C20 itself.
                    recheck.1 += 1;
                    let rep = json!({
                        "property": "C20", "engine": "sched", "kind": "rerun", "verif_seed": a.seed, "run": r, "tier": a.tier,
                        "scenario": sc, "variant": {"config": cfg},
                        "difference": {"class": "same-configuration-rerun-differs", "needed_dimensions": ["unpinned-source"],
                                       "first": got.to_json(), "second": got2.to_json()},
                    });
                    let path = write_replay(a, &format!("C20-{}-{}-{}-rerun.json", a.seed, r, v), &rep);
                    violations.push(json!({"replay": path, "class": "same-configuration-rerun-differs", "op": sc.op, "needed_dimensions": ["unpinned-source"],
                        "detail": format!("{} on {:?}: two executions of one configuration gave {} and {}", sc.op, sc.input, got.to_json(), got2.to_json())}));
                    break;
                }
                if info2.report.log_hash() != info.report.log_hash() || info2.key_draws != info.key_draws || info2.alloc.shuffled_choices != info.alloc.shuffled_choices {
                    // same outcome, different *effort* (decisions, key draws, allocations): on the
                    // unchanged tree this has never happened (selftest/determinism.sh proves the
                    // simulator deterministic); code under test that keeps state between calls (a
                    // memo, a warmed cache) legitimately changes its effort, which C20 does not
                    // forbid - so this is counted and reported, not an error and not a violation
                    effort_mismatches += 1;
                    if effort_samples.len() < 2 {
                        effort_samples.push(json!({"run": r, "variant": v, "scenario": sc, "decisions": [info.report.stats.steps, info2.report.stats.steps],
                            "key_draws": [info.key_draws, info2.key_draws], "shuffled_allocations": [info.alloc.shuffled_choices, info2.alloc.shuffled_choices]}));
                    }
                }
            }
            if got != reference {
                let cls = class_of(&reference, &got);
                let same_kind = violations.iter().filter(|x| !x["replay"].is_null() && x["op"] == sc.op.as_str() && x["class0"] == cls).count();
                if same_kind < 2 && violations.iter().filter(|x| !x["replay"].is_null()).count() < 8 {
                    set_token(format!("{}:min", r));
                    let minimised = if skip.contains(&format!("{}:min", r)) {
                        // an earlier launch did not come back from minimising this one: report it as found
                        tot.add("minimisations_skipped_stuck", 1);
                        Some(Minimised { sc: sc.clone(), cfg: cfg.clone(), reference: reference.clone(), got: got.clone(), needed: dims_of(&cfg, &sc), decisions: info.report.decisions.clone(), complete: false })
                    } else {
                        minimise(&sc, &cfg)
                    };
                    match minimised {
                        Some(m) => {
                            let rep = replay_json(a, r, &m, &sc, &cfg);
                            let path = write_replay(a, &format!("C20-{}-{}{}-{}.json", a.seed, if large > 0 { "L" } else { "" }, r, v), &rep);
                            violations.push(json!({"replay": path, "class": class_of(&m.reference, &m.got), "class0": cls, "op": m.sc.op,
                                "needed_dimensions": m.needed, "predicates": rep["predicates"],
                                "detail": format!("{} on {:?}: reference {} vs {} under {:?}", m.sc.op, m.sc.input, m.reference.to_json(), m.got.to_json(), m.cfg.strategy)}));
                        }
                        None => violations.push(json!({"replay": Value::Null, "class": class_of(&reference, &got), "op": sc.op, "run": r, "note": "not reproduced while minimising"})),
                    }
                } else {
                    violations.push(json!({"replay": Value::Null, "class": class_of(&reference, &got), "op": sc.op, "run": r}));
                }
                break;
            }
        }
        r += a.shard_n;
    }

    // "fresh process" clause: every shard (a fresh process with its own key / address streams)
    // recomputes the outcome digests of the same first `cross` scenarios; the driver compares
    // the lists of all shards
    let mut cross_digests: Vec<String> = vec![];
    for k in 0..cross {
        let s_k = mix(&[a.seed, name_hash("C20-cross"), k]);
        let sc = gen_scenario(s_k, 0);
        let op = ops::find(&sc.op).unwrap();
        if skip.contains(&format!("cross:{}", k)) {
            cross_digests.push("skipped".to_string());
            continue;
        }
        set_token(format!("cross:{}", k));
        // screened like every other scenario (a skipped entry is ignored by the comparison)
        if let Some(p) = &pristine {
            if p.ask(&serde_json::to_vec(&sc).unwrap(), 2).is_none() {
                cross_digests.push("skipped".to_string());
                continue;
            }
        }
        let input = inputs::build(&sc.input);
        let cfg = Cfg { hash_seed: mix(&[a.shard_i, 77]) | 1, addr_seed: Some(mix(&[a.shard_i, 78]) | 1), workers: 1 + (a.shard_i as usize % 16), strategy: "uniform".into(), sched_seed: a.shard_i, ..Cfg::reference() };
        let (o, info) = run_one(&sc, op, &input, &[], &cfg);
        evaluations += 1;
        account(&mut tot, &sc, &cfg, &info);
        cross_digests.push(format!("{:016x}", o.digest()));
    }

    if eventlog {
        std::fs::write(format!("{}/C20-shard{}.events", a.out_dir, a.shard_i), &events).expect("write events");
    }
    hashes.sort_unstable();
    hashes.dedup();
    write_hashes(a, &hashes);
    loghashes.sort_unstable();
    loghashes.dedup();
    write_hashes_as(a, "C20log", &loghashes);
    let mut pj = serde_json::Map::new();
    for (k, v) in &tot.m {
        pj.insert(k.clone(), json!(v));
    }
    let summary = json!({
        "property": "C20", "shard": a.shard_i, "evaluations": evaluations, "scenarios": scenarios,
        "probes": Value::Object(pj), "nontrivial_distinct_in_shard": hashes.len(),
        "distinct_decision_logs_in_shard": loghashes.len(),
        "samples": samples, "violations": violations,
        "determinism_reruns": recheck.0, "determinism_mismatches": recheck.1,
        "rerun_effort_mismatches": effort_mismatches, "rerun_effort_samples": effort_samples,
        "cross_digests": cross_digests, "hazard_samples": hazards,
        "wall_ms": t0.elapsed().as_millis() as u64,
    });
    write_summary(a, &summary);
    0
}

pub fn replay(a: &Args) -> i32 {
    install_global_panic_hook();
    warm_up();
    let f = a.file.clone().expect("--file");
    let v: Value = match std::fs::read(&f).ok().and_then(|b| serde_json::from_slice(&b).ok()) {
        Some(v) => v,
        None => {
            println!("HARNESS-ERROR: cannot read replay file {}", f);
            return 2;
        }
    };
    if v["kind"] == "rerun" {
        let sc: Scenario = serde_json::from_value(v["scenario"].clone()).expect("scenario");
        let cfg: Cfg = serde_json::from_value(v["variant"]["config"].clone()).expect("config");
        let op = ops::find(&sc.op).expect("op");
        let input = inputs::build(&sc.input);
        let pin = prefix_inputs_for(&sc, &cfg);
        let (first, _) = run_one(&sc, op, &input, &pin, &cfg);
        for k in 0..20 {
            let (again, _) = run_one(&sc, op, &input, &pin, &cfg);
            if again != first {
                println!("execution {} differs from the first: {} vs {}", k + 2, again.to_json(), first.to_json());
                println!("VIOLATION property=C20 replay={}", f);
                return 1;
            }
        }
        println!("NOT-REPRODUCED property=C20 replay={} (21 executions agree)", f);
        return 0;
    }
    if v["kind"] == "stuck" {
        // the recorded configuration did not return within the limit: run it again under the same watchdog
        // (status 86 = it did not come back again; the driver prints the VIOLATION line)
        let sc: Scenario = serde_json::from_value(v["scenario"].clone()).expect("scenario");
        let cfg: Cfg = serde_json::from_value(v["variant"]["config"].clone()).expect("config");
        let op = ops::find(&sc.op).expect("op");
        let input = inputs::build(&sc.input);
        let mut a2 = a.clone();
        a2.out_dir = std::env::temp_dir().display().to_string();
        a2.shard_i = std::process::id() as u64;
        set_token("replay".into());
        start_watchdog(&a2, v["limit_s"].as_u64().unwrap_or(120));
        let pin = prefix_inputs_for(&sc, &cfg);
        let (got, _) = run_one(&sc, op, &input, &pin, &cfg);
        println!("returned: {}", got.to_json());
        println!("NOT-REPRODUCED property=C20 replay={}", f);
        return 0;
    }
    if v["kind"] == "fresh-process" {
        // re-execute the recorded shard up to the recorded run: the history is part of the replay
        let rp = &v["reproduce"];
        let (si, sn) = rp["shard"].as_str().unwrap_or("0/1").split_once('/').map(|(x, y)| (x.parse().unwrap_or(0), y.parse().unwrap_or(1))).unwrap_or((0, 1));
        let tmp = format!("{}/replay-fresh-{}", std::env::temp_dir().display(), std::process::id());
        let _ = std::fs::create_dir_all(&tmp);
        let mut a2 = a.clone();
        a2.seed = v["verif_seed"].as_u64().unwrap_or(1);
        a2.shard_i = si;
        a2.shard_n = sn;
        a2.runs = rp["runs"].as_u64().unwrap_or(0);
        a2.out_dir = tmp.clone();
        a2.replay_dir = tmp.clone();
        a2.extra.insert("large".into(), rp["large"].to_string());
        a2.extra.insert("variants".into(), rp["variants"].to_string());
        a2.extra.insert("until".into(), v["run"].to_string());
        a2.extra.insert("cross".into(), "0".into());
        let _ = run(&a2);
        let sum: Value = std::fs::read(format!("{}/C20-shard{}.json", tmp, si)).ok().and_then(|b| serde_json::from_slice(&b).ok()).unwrap_or(Value::Null);
        let hit = sum["violations"].as_array().map(|vs| vs.iter().any(|x| x["class"] == "fresh-process-differs" && x["run"] == v["run"])).unwrap_or(false);
        let _ = std::fs::remove_dir_all(&tmp);
        if hit {
            println!("VIOLATION property=C20 replay={}", f);
            return 1;
        }
        println!("NOT-REPRODUCED property=C20 replay={}", f);
        return 0;
    }
    let sc: Scenario = serde_json::from_value(v["scenario"].clone()).expect("scenario");
    let cfg: Cfg = serde_json::from_value(v["variant"]["config"].clone()).expect("config");
    let want_class = v["difference"]["class"].as_str().unwrap_or("").to_string();
    let op = ops::find(&sc.op).expect("op");
    let input = inputs::build(&sc.input);
    let (reference, _) = run_one(&sc, op, &input, &[], &Cfg::reference());
    let pin = prefix_inputs_for(&sc, &cfg);
    let (got, info) = run_one(&sc, op, &input, &pin, &cfg);
    println!("reference: {}", reference.to_json());
    println!("variant  : {} ({} decisions, {} key draws, {} shuffled allocations)", got.to_json(), info.report.stats.steps, info.key_draws, info.alloc.shuffled_choices);
    if got != reference && class_of(&reference, &got) == want_class {
        println!("VIOLATION property=C20 replay={}", f);
        1
    } else if got != reference {
        println!("difference class changed: {} (recorded {})", class_of(&reference, &got), want_class);
        println!("VIOLATION property=C20 replay={}", f);
        1
    } else {
        println!("NOT-REPRODUCED property=C20 replay={}", f);
        0
    }
}

/// Debug helper: executes one scenario (JSON file with {"scenario":…, "config":… optional}) once.
pub fn exec_one(a: &Args) -> i32 {
    install_global_panic_hook();
    warm_up();
    let f = a.file.clone().expect("--file");
    let v: Value = serde_json::from_slice(&std::fs::read(&f).expect("read")).expect("json");
    let sc: Scenario = serde_json::from_value(v["scenario"].clone()).expect("scenario");
    let cfg: Cfg = if v["config"].is_null() { Cfg::reference() } else { serde_json::from_value(v["config"].clone()).expect("config") };
    let op = ops::find(&sc.op).expect("op");
    let input = inputs::build(&sc.input);
    let pin = prefix_inputs_for(&sc, &cfg);
    let t0 = Instant::now();
    let (got, info) = run_one(&sc, op, &input, &pin, &cfg);
    println!("{} in {:?}: {:?} key_draws={} alloc={:?} solver_calls={}", got.to_json(), t0.elapsed(), info.report.stats, info.key_draws, info.alloc, info.solver_calls);
    0
}
